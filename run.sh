#!/bin/sh
# entry point of every registered command: bootstrap the overlay venv if missing, then python -m rv ...
HERE="$(cd "$(dirname "$0")" && pwd)"
"$HERE/setup.sh" || { echo "setup failed"; exit 3; }
cd "$HERE"
export ROCKIT_VERIF=1
exec "$HERE/.venv/bin/python" -m rv "$@"
