"""Reference semantics of the explicit shooting schemes, written from the property statement only
(classical RK4 / explicit Euler / discrete update, M sub-steps, absolute stage times,
per-interval parameter selection).  Domain generic: works on z3 terms, floats, Fractions."""
from ..dsl import ev


def leaf_at(tr, k, x, tt, h=None, z=None, q=None, kplus=None):
    """leaf resolver for interval k (0..N-1) with state x at time tt.
    kplus: index used for 'control+' quantities (defaults to k)."""
    spec = tr.spec
    N = tr.N
    kk = min(k, N - 1)
    kp = k if kplus is None else kplus
    gridp = {s.name: s.grid for s in spec.params}
    gridv = {s.name: s.grid for s in spec.vars}

    def leaf(op, a):
        if op == 'x':
            return x[a[0]]
        if op == 'u':
            return tr.U[kk][a[0]]
        if op == 'z':
            return z[a[0]]
        if op == 'q':
            return q[a[0]]
        if op == 'p':
            g = gridp[a[0]]
            if g == '':
                return tr.P[a[0]][a[1]]
            return tr.Pc[a[0]][kk if g == 'control' else kp][a[1]]
        if op == 'v':
            g = gridv[a[0]]
            if g == '':
                return tr.V[a[0]][a[1]]
            return tr.Vc[a[0]][kk if g == 'control' else kp][a[1]]
        if op == 't':
            return tt
        if op == 'T':
            return tr.T
        if op == 't0':
            return tr.t0
        if op == 'tf':
            return tr.t0 + tr.T
        if op == 'DT':
            return h if h is not None else (tr.tc[kk + 1] - tr.tc[kk]) / tr.dom.const(tr.M)
        if op == 'DTc':
            return tr.tc[kk + 1] - tr.tc[kk]
        raise KeyError(op)
    return leaf


def rhs(tr, k, x, tt, h, exprs):
    lf = leaf_at(tr, k, x, tt, h)
    return [ev(e, lf, tr.dom) for e in exprs]


def step(tr, k, x, tt, h, intg, quads=(), mut=None):
    """one step of the scheme from (x, tt) with step h on interval k.
    returns (x_next, list of quadrature increments)"""
    dom = tr.dom
    spec = tr.spec
    c = dom.const
    nx = len(x)
    if spec.nxt is not None:
        xn = rhs(tr, k, x, tt, h, spec.nxt)
        return xn, rhs(tr, k, x, tt, h, list(quads))
    ode = list(spec.ode) + list(quads)

    def F(xx, t_):
        r = rhs(tr, k, xx, t_, h, ode)
        return r[:nx], r[nx:]
    if intg == 'expl_euler':
        k1, q1 = F(x, tt)
        return [x[i] + h * k1[i] for i in range(nx)], [h * q for q in q1]
    if intg == 'rk':
        half = h / c(2)
        t3 = tt + (h if mut == 'c3' else half)
        k1, q1 = F(x, tt)
        k2, q2 = F([x[i] + half * k1[i] for i in range(nx)], tt + half)
        k3, q3 = F([x[i] + half * k2[i] for i in range(nx)], t3)
        k4, q4 = F([x[i] + h * k3[i] for i in range(nx)], tt + h)
        xn = [x[i] + h / c(6) * (k1[i] + c(2) * k2[i] + c(2) * k3[i] + k4[i]) for i in range(nx)]
        qn = [h / c(6) * (q1[i] + c(2) * q2[i] + c(2) * q3[i] + q4[i]) for i in range(len(quads))]
        return xn, qn
    raise ValueError(intg)


def propagate(tr, k, x, quads=(), mut=None):
    """M steps over control interval k from state x.  returns (iterates [x_0..x_M], quad partial sums)"""
    dom = tr.dom
    M = tr.M
    kk = k + 1 if mut == 'next_interval_time' and k + 2 <= tr.N else k
    h = (tr.tc[kk + 1] - tr.tc[kk]) / dom.const(M)
    tt = tr.tc[k]
    its = [x]
    qs = []
    acc = [dom.const(0)] * len(quads)
    for j in range(M):
        x, dq = step(tr, k, x, tt, h, tr.cfg.intg, quads, mut)
        acc = [a + b for a, b in zip(acc, dq)]
        qs.append(acc)
        its.append(x)
        tt = tt + h
    return its, qs


def gap_atoms(tr, mut=None):
    """MultipleShooting: X[k+1] - Phi^M(X[k]) = 0 for every interval and state component"""
    atoms = []
    for k in range(tr.N):
        its, _ = propagate(tr, k, tr.X[k], mut=mut)
        for i in range(tr.spec.nx):
            atoms.append(('eq', tr.X[k + 1][i] - its[-1][i], 'gap[k=%d,i=%d]' % (k, i)))
    return atoms


def recursion(tr, from_named=True, mut=None):
    """states on the control and integrator grid by recursion.
    from_named: restart every interval from the named node state (MultipleShooting) or carry the
    propagated state on (SingleShooting)."""
    Xc = [tr.X[0]]
    Xi = []
    x = tr.X[0]
    for k in range(tr.N):
        start = tr.X[k] if from_named else x
        its, _ = propagate(tr, k, start, mut=mut)
        Xi.extend(its[:-1])
        x = its[-1]
        Xc.append(x)
    Xi.append(tr.X[tr.N] if from_named else x)
    return Xc, Xi
