"""Reference semantics of direct collocation: Lagrange interpolant through the interval start state
and the helper states; defects, algebraic residuals, continuity, quadrature weights.
Exact rational tables computed from the collocation points (the only thing taken from CasADi)."""
from fractions import Fraction as Fr

from ..dsl import ev
from .shooting import leaf_at


def tau_points(degree, scheme):
    import casadi as ca
    return [Fr(float(x)) for x in ca.collocation_points(degree, scheme)]


def _polymul(a, b):
    r = [Fr(0)] * (len(a) + len(b) - 1)
    for i, x in enumerate(a):
        for j, y in enumerate(b):
            r[i + j] += x * y
    return r


def lagrange_basis(nodes):
    """coefficient lists (ascending powers) of the Lagrange basis on `nodes`"""
    out = []
    for j, tj in enumerate(nodes):
        p = [Fr(1)]
        for r, trr in enumerate(nodes):
            if r != j:
                p = _polymul(p, [-trr / (tj - trr), Fr(1) / (tj - trr)])
        out.append(p)
    return out


def peval(p, x):
    return sum(c * x ** i for i, c in enumerate(p))


def pder(p):
    return [c * i for i, c in enumerate(p)][1:] or [Fr(0)]


def pint01(p):
    return sum(c / (i + 1) for i, c in enumerate(p))


class Tables:
    def __init__(self, degree, scheme):
        self.d = degree
        self.tau = tau_points(degree, scheme)
        self.nodes = [Fr(0)] + self.tau
        self.L = lagrange_basis(self.nodes)
        # C[r][j] = l_r'(tau_j) ; D[r] = l_r(1) ; B[r] = int_0^1 l_r
        self.C = [[peval(pder(self.L[r]), self.tau[j]) for j in range(degree)] for r in range(degree + 1)]
        self.D = [peval(self.L[r], Fr(1)) for r in range(degree + 1)]
        self.B = [pint01(self.L[r]) for r in range(degree + 1)]
        # quadrature weights of the collocation method itself: integrals of the Lagrange polynomials through the
        # collocation points only (exact for constants for every degree, also for a single Radau point)
        self.b = [pint01(p) for p in lagrange_basis(self.tau)]


def interval_data(tr, k, i):
    """start state, helper states, alg values, start time, step of integration interval (k,i)"""
    d = tr.cfg.degree
    M = tr.M
    dom = tr.dom
    idx = k * M + i
    xs = tr.Xi[idx]
    xn = tr.Xi[idx + 1]
    xr = [tr.Xr[idx * d + j] for j in range(d)]
    zr = [tr.Zr[idx * d + j] for j in range(d)] if tr.spec.nz else [[] for _ in range(d)]
    h = (tr.tc[k + 1] - tr.tc[k]) / dom.const(M)
    ts = tr.tc[k] + h * dom.const(i)
    return xs, xn, xr, zr, ts, h


def dyn_atoms(tr, mut=None):
    """all dynamics-related equality atoms of the collocation transcription"""
    spec, cfg = tr.spec, tr.cfg
    dom = tr.dom
    c = dom.const
    tb = Tables(cfg.degree, cfg.scheme)
    d = cfg.degree
    atoms = []
    for k in range(tr.N):
        for i in range(tr.M):
            xs, xn, xr, zr, ts, h = interval_data(tr, k, i)
            nodes_x = [xs] + xr
            for j in range(d):
                tj = ts + h * c(tb.tau[j if mut != 'root_time' else max(j - 1, 0)])
                lf = leaf_at(tr, k, xr[j], tj, h, z=zr[j])
                f = [ev(e, lf, dom) for e in spec.ode]
                for s in range(spec.nx):
                    pdot = sum((nodes_x[r][s] * c(tb.C[r][j]) for r in range(1, d + 1)), nodes_x[0][s] * c(tb.C[0][j])) / h
                    atoms.append(('eq', pdot - f[s], 'defect[k=%d,i=%d,j=%d,s=%d]' % (k, i, j, s)))
                for a, e in enumerate(spec.alg):
                    atoms.append(('eq', ev(e, lf, dom), 'alg[k=%d,i=%d,j=%d,a=%d]' % (k, i, j, a)))
            for s in range(spec.nx):
                pend = sum((nodes_x[r][s] * c(tb.D[r]) for r in range(1, d + 1)), nodes_x[0][s] * c(tb.D[0]))
                atoms.append(('eq', pend - xn[s], 'cont[k=%d,i=%d,s=%d]' % (k, i, s)))
    return atoms


def root_times(tr):
    dom = tr.dom
    tb = Tables(tr.cfg.degree, tr.cfg.scheme)
    out = []
    for k in range(tr.N):
        for i in range(tr.M):
            _, _, _, _, ts, h = interval_data(tr, k, i)
            for j in range(tr.cfg.degree):
                out.append(ts + h * dom.const(tb.tau[j]))
    return out


def quadrature(tr, exprs):
    """collocation quadrature of integrands along the helper states: sum_j q(X_r_j, t_r_j) h B_j.
    returns running totals per integration interval: list (len N*M) of lists"""
    spec, cfg = tr.spec, tr.cfg
    dom = tr.dom
    c = dom.const
    tb = Tables(cfg.degree, cfg.scheme)
    acc = [c(0)] * len(exprs)
    run = []
    for k in range(tr.N):
        for i in range(tr.M):
            xs, xn, xr, zr, ts, h = interval_data(tr, k, i)
            for j in range(cfg.degree):
                tj = ts + h * c(tb.tau[j])
                lf = leaf_at(tr, k, xr[j], tj, h, z=zr[j])
                q = [ev(e, lf, dom) for e in exprs]
                acc = [a + qq * h * c(tb.b[j]) for a, qq in zip(acc, q)]
            run.append(list(acc))
    return run
