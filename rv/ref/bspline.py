"""Reference B-splines: Cox-de Boor recursion on clamped knot vectors, exact rationals for the knots,
domain-generic values.  Written from the textbook definition only."""
from fractions import Fraction as Fr


def clamped(xi, d):
    return [xi[0]] * d + list(xi) + [xi[-1]] * d


def basis_polys(knots, d, span):
    """all basis functions of degree d restricted to the knot span [knots[span], knots[span+1]) as polynomials in x
    (coefficient lists, ascending).  0/0 := 0."""
    n0 = len(knots) - 1
    B = [[Fr(1)] if i == span else [Fr(0)] for i in range(n0)]
    for e in range(1, d + 1):
        nb = len(knots) - e - 1
        new = []
        for i in range(nb):
            p = [Fr(0)]
            den = knots[i + e] - knots[i]
            if den != 0:
                # (x - k_i)/den * B_i
                p = padd(p, pmul([-knots[i] / den, Fr(1) / den], B[i]))
            den = knots[i + e + 1] - knots[i + 1]
            if den != 0:
                p = padd(p, pmul([knots[i + e + 1] / den, Fr(-1) / den], B[i + 1]))
            new.append(p)
        B = new
    return B


def padd(a, b):
    n = max(len(a), len(b))
    return [(a[i] if i < len(a) else Fr(0)) + (b[i] if i < len(b) else Fr(0)) for i in range(n)]


def pmul(a, b):
    r = [Fr(0)] * (len(a) + len(b) - 1)
    for i, x in enumerate(a):
        for j, y in enumerate(b):
            r[i + j] += x * y
    return r


def peval(p, x, dom):
    """Horner in the given domain"""
    r = dom.const(0)
    for c in reversed(p):
        r = r * x + dom.const(c)
    return r


def spline_value(coeffs, xi, d, span, x, dom):
    """sum_i c_i B_{i,d}(x) for x in knot span `span` of xi (span index over xi intervals)"""
    knots = clamped(xi, d)
    B = basis_polys(knots, d, span + d)
    r = dom.const(0)
    for c, p in zip(coeffs, B):
        if any(v != 0 for v in p):
            r = r + c * peval(p, x, dom)
    return r


def derivative_coeffs(coeffs, xi, d, dom):
    """coefficients of the derivative spline (degree d-1) on the same breakpoints"""
    knots = clamped(xi, d)
    out = []
    for i in range(len(coeffs) - 1):
        den = knots[i + d + 1] - knots[i + 1]
        out.append((coeffs[i + 1] - coeffs[i]) * dom.const(Fr(d) / den))
    return out


def greville(xi, d):
    knots = clamped(xi, d)
    if d == 0:
        return [(xi[i] + xi[i + 1]) / 2 for i in range(len(xi) - 1)]
    n = len(knots) - d - 1
    return [sum(knots[i + 1:i + d + 1], Fr(0)) / d for i in range(n)]
