"""Reference semantics of constraint placement and objective composition, written from the
property statements (C04, C05).  Works on a Traj (named quantities) in any domain."""
from ..dsl import ev, E, leaves, has_wrap, LEAVES
from .shooting import leaf_at, propagate
from . import collocation as colloc


class OutOfHorizon(Exception):
    pass


SIGNAL_LEAVES = {'x', 'u', 'z', 't', 'DT', 'DTc', 'q'}


def is_signal(spec, e, inside=False):
    """does the expression depend on time (outside at_t0/at_tf/integral/sum wrappers)?"""
    if not isinstance(e, E):
        return False
    if e.op in ('at_t0', 'at_tf', 'integral', 'integral_control', 'sum', 'wsum'):
        return False
    if e.op in SIGNAL_LEAVES:
        return True
    if e.op in ('p', 'v'):
        syms = spec.params if e.op == 'p' else spec.vars
        g = [s.grid for s in syms if s.name == e.a[0]][0]
        return g != ''
    if e.op in LEAVES:
        return False
    return any(is_signal(spec, x) for x in e.a)


class Ref:
    def __init__(self, tr):
        self.tr = tr
        self.spec = tr.spec
        self.cfg = tr.cfg
        self.dom = tr.dom
        self.N, self.M = tr.N, tr.M

    # ---- evaluation at points -------------------------------------------------------------
    def node_leaf(self, k):
        """leaf resolver at control node k in 0..N (controls / per-interval values of the final node
        are those of the last interval; control+ quantities have their own last column)"""
        tr = self.tr
        N = self.N
        kk = min(k, N - 1)
        z = tr.Zc[k] if getattr(tr, 'Zc', None) else None
        return leaf_at(tr, kk, tr.X[k], tr.tc[k], None, z=z, q=self.quad_at_node(k), kplus=k)

    def quad_at_node(self, k):
        """declared quadrature states at control node k: the scheme's own quadrature accumulated from t0"""
        if not self.spec.quads:
            return None
        if not hasattr(self, '_qnodes'):
            tr, dom = self.tr, self.dom
            nq = len(self.spec.quads)
            out = [[dom.const(0)] * nq]
            if self.cfg.method == 'DC':
                run = colloc.quadrature(tr, self.spec.quads)
                for kk_ in range(self.N):
                    out.append(list(run[(kk_ + 1) * self.M - 1]))
            else:
                acc = [dom.const(0)] * nq
                for kk_ in range(self.N):
                    _, qs = propagate(tr, kk_, tr.X[kk_], quads=self.spec.quads)
                    acc = [a_ + q_ for a_, q_ in zip(acc, qs[-1])]
                    out.append(list(acc))
            self._qnodes = out
        return self._qnodes[k]

    def at_node(self, e, k):
        if k < 0 or k > self.N:
            raise OutOfHorizon()

        def wrap(op, node):
            if op == 'offset':
                return self.at_node(node.a[0], k + node.a[1])
            return self.top_wrap(op, node)
        return ev(e, self.node_leaf(k), self.dom, wrap)

    def at_integrator(self, e, k, i):
        tr = self.tr
        idx = k * self.M + i
        h = (tr.tc[k + 1] - tr.tc[k]) / self.dom.const(self.M)
        lf = leaf_at(tr, k, tr.Xi[idx], tr.ti[idx], h, z=None)
        return ev(e, lf, self.dom, lambda op, node: self.top_wrap(op, node))

    def at_root(self, e, k, i, j):
        tr = self.tr
        d = self.cfg.degree
        idx = (k * self.M + i) * d + j
        h = (tr.tc[k + 1] - tr.tc[k]) / self.dom.const(self.M)
        z = tr.Zr[idx] if self.spec.nz else None
        lf = leaf_at(tr, k, tr.Xr[idx], tr.tr[idx], h, z=z)
        return ev(e, lf, self.dom, lambda op, node: self.top_wrap(op, node))

    def top_leaf(self, op, a):
        tr = self.tr
        if op == 'p':
            return tr.P[a[0]][a[1]]
        if op == 'v':
            return tr.V[a[0]][a[1]]
        if op == 'T':
            return tr.T
        if op == 't0':
            return tr.t0
        if op == 'tf':
            return tr.t0 + tr.T
        raise KeyError('signal leaf %s outside a time-resolving wrapper' % op)

    def top_wrap(self, op, node):
        e = node.a[0]
        N = self.N
        if op == 'at_t0':
            return self.at_node(e, 0)
        if op == 'at_tf':
            return self.at_node(e, N)
        if op == 'wsum':
            kind, r_, c_, w = node.a[:4]
            tot = self.dom.const(0)
            for wi, comp in zip(w, node.a[4:]):
                inner = {'sum': E('sum', comp, False), 'sum+': E('sum', comp, True), 'at_tf': E('at_tf', comp), 'at_t0': E('at_t0', comp)}[kind]
                tot = tot + self.dom.const(wi) * self.top_wrap(inner.op, inner)
            return tot
        if op == 'sum':
            ks = list(range(N)) + ([N] if node.a[1] else [])
            r = self.dom.const(0)
            for k in ks:
                r = r + self.at_node(e, k)
            return r
        if op == 'integral_control':
            r = self.dom.const(0)
            for k in range(N):
                r = r + (self.tr.tc[k + 1] - self.tr.tc[k]) * self.at_node(e, k)
            return r
        if op == 'integral':
            return self.integral(e)
        raise OutOfHorizon() if op == 'offset' else KeyError(op)

    def top(self, e):
        return ev(e, self.top_leaf, self.dom, self.top_wrap)

    # ---- integrals ---------------------------------------------------------------------------
    def integral(self, e):
        tr = self.tr
        if self.cfg.method == 'DC':
            return colloc.quadrature(tr, [e])[-1][0]
        total = self.dom.const(0)
        for k in range(self.N):
            _, qs = propagate(tr, k, tr.X[k], quads=[e])
            total = total + qs[-1][0]
        return total

    # ---- objective ------------------------------------------------------------------------------
    def objective(self):
        r = self.dom.const(0)
        for term in self.spec.objective:
            r = r + self.top(term)
        return r

    # ---- constraints ------------------------------------------------------------------------------
    def con_atoms(self, ci, c, evalf, label):
        """atoms of one instance; evalf(expr)->value.  Vector-valued constraints give one atom (pair) per component."""
        sc = c.scale
        one = isinstance(sc, int) and sc == 1
        dv = (lambda v: v) if one else (lambda v: v / self.dom.const(sc))
        out = []
        comps = c.components()
        for i, (lhs, rhs, mid) in enumerate(comps):
            lab = label if len(comps) == 1 else '%s[%d]' % (label, i)
            if c.op == '==':
                out.append(('eq', dv(evalf(lhs) - evalf(rhs)), lab))
            elif c.op == '<=':
                out.append(('le', dv(evalf(lhs) - evalf(rhs)), lab))
            elif c.op == '>=':
                out.append(('le', dv(evalf(rhs) - evalf(lhs)), lab))
            elif c.op == '<=<=':
                m = evalf(mid)
                # an infinite bound component is no restriction (vector-valued two-sided constraints with mixed bounds)
                if not (isinstance(lhs, E) and lhs.op == 'inf'):
                    out.append(('le', dv(evalf(lhs) - m), lab + '.lo'))
                if not (isinstance(rhs, E) and rhs.op == 'inf'):
                    out.append(('le', dv(m - evalf(rhs)), lab + '.hi'))
            else:
                raise ValueError(c.op)
        return out

    def con_is_signal(self, c):
        parts = []
        for side in (c.lhs, c.rhs, c.mid):
            if side is None:
                continue
            parts += side if isinstance(side, list) else [side]
        return any(is_signal(self.spec, p) for p in parts)

    def constraint_atoms(self, which=None):
        """expected atoms of all declared constraints (dynamics and grid rows not included)"""
        atoms = []
        N, M = self.N, self.M
        for ci, c in enumerate(self.spec.cons):
            if which is not None and ci not in which:
                continue
            if not self.con_is_signal(c):
                atoms += self.con_atoms(ci, c, self.top, 'con%d@point' % ci)
                continue
            grid = c.grid or 'control'
            if grid == 'control':
                for k in range(N + 1):
                    if k == 0 and not c.include_first:
                        continue
                    if k == N and not c.include_last:
                        continue
                    try:
                        atoms += self.con_atoms(ci, c, lambda e, k=k: self.at_node(e, k), 'con%d@node%d' % (ci, k))
                    except OutOfHorizon:
                        pass
            elif grid == 'integrator':
                for k in range(N):
                    for i in range(M):
                        if k == 0 and i == 0 and not c.include_first:
                            continue
                        atoms += self.con_atoms(ci, c, lambda e, k=k, i=i: self.at_integrator(e, k, i), 'con%d@intg%d.%d' % (ci, k, i))
                if c.include_last:
                    atoms += self.con_atoms(ci, c, lambda e: self.at_node(e, N), 'con%d@node%d' % (ci, N))
            elif grid == 'integrator_roots':
                if not hasattr(self.tr, 'Xr'):
                    # no collocation points: the expected outcome is a rejection; report as expected-but-absent
                    atoms.append(('le', self.dom.const(1) + self.tr.X[0][0] * self.tr.X[0][0], 'con%d@roots-unplaceable' % ci))
                    continue
                for k in range(N):
                    for i in range(M):
                        for j in range(self.cfg.degree):
                            atoms += self.con_atoms(ci, c, lambda e, k=k, i=i, j=j: self.at_root(e, k, i, j), 'con%d@root%d.%d.%d' % (ci, k, i, j))
            else:
                raise ValueError(grid)
        return atoms

    def horizon_atoms(self):
        """T >= 0 for a free horizon"""
        atoms = []
        if self.spec.T[0] == 'free':
            atoms.append(('le', self.dom.const(0) - self.tr.T, 'T>=0'))
        return atoms
