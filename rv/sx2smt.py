"""CasADi SX instruction stream -> SMT terms (z3), floats or exact rationals.

One interpreter (`SXProgram.run`) parametrised by an arithmetic domain.  The float domain is
run against CasADi's own numeric evaluation of the same Function on every trace
(`SXProgram.selfcheck`): a disagreement is a harness error, never a verdict.

Markers: erf -> uninterpreted U1, hypot -> uninterpreted U2 (see DESIGN.md 2.2).
"""
import math
import random
from fractions import Fraction

import casadi as ca

OPN = {getattr(ca, k): k for k in dir(ca) if k.startswith('OP_')}


class HarnessError(Exception):
    pass


class Unsupported(Exception):
    pass


class DimMismatch(HarnessError):
    """two transcriptions that should be the same problem have different numbers of variables / parameters"""
    pass


class RockitRaised(Exception):
    """the real code raised on a well-posed specification"""
    pass


# ------------------------------------------------------------------------------------------
# constant pool
# ------------------------------------------------------------------------------------------
class ConstPool:
    """Canonical exact value for every float constant met on either side (DESIGN 2.2).

    * integers stay themselves; a constant within 1e-10 relative of a registered one becomes that one;
    * "simple" rationals (denominator <= 10^3/10^4/10^5 within 1e-12/1e-13/4e-15 relative: a
      statistically significant approximation, error << 1/q^2) are snapped to that rational;
    * every other ("opaque": irrational table entries, folded products of those) constant joins
      the ratio class of an already registered opaque constant m if c/m is a simple rational
      r (numerator, denominator <= 128, within 1e-11 relative; r = 1 is plain clustering) and gets the exact
      value r * value(m); otherwise it founds a new class with its exact binary value.
      This keeps CasADi's constant folding ((n*T)*tau -> fl(n*tau)*T) comparable with a reference
      that multiplies exact factors.  A constant related to two different classes is ambiguous:
      the instance is skipped (counted), never passed.
    """
    REL = 1e-10
    # (max denominator, relative tolerance): a rational p/q is accepted when the approximation is
    # statistically significant (chance hit for a random real ~ q^2*tol <= 1e-5); CasADi's
    # collocation_coeff carries errors up to ~1e-14 on small rationals such as -1 or 17/2
    SIMPLE_TIERS = ((10 ** 3, Fraction(1, 10 ** 12)), (10 ** 4, Fraction(1, 10 ** 13)), (10 ** 5, Fraction(4, 10 ** 15)))
    RATIO_DEN = 128
    RATIO_TOL = 1e-11

    def __init__(self):
        self.keys = []   # floats of opaque members
        self.vals = []   # exact Fractions assigned
        self.cls = []    # class id
        self.snapped = 0
        self.max_rel = 0.0
        self.n_classes = 0
        self.cache = {}

    def canon(self, c):
        if isinstance(c, int):
            return Fraction(c)
        if isinstance(c, Fraction):
            exact = c
            f = float(c)
        else:
            f = float(c)
            if math.isnan(f) or math.isinf(f):
                raise Unsupported('non-finite constant %r' % f)
            exact = Fraction(f)
        if exact.denominator == 1:
            return exact
        if 0 < abs(f) < 1e-12:
            # residue of a floating-point cancellation in CasADi's constant folding (t - DT on a numeric grid, table entries
            # that are zero up to rounding): kept with its exact binary value; recorded so that a randomly generated instance
            # whose comparison fails in its presence is reported as undecidable (IEEE rounding is outside every claim)
            self.tiny = max(getattr(self, 'tiny', 0.0), abs(f))
        if f == int(f) and abs(f) < 2 ** 53 and not isinstance(c, Fraction):
            return Fraction(int(f))
        key = (f, exact if isinstance(c, Fraction) else None)
        if key in self.cache:
            return self.cache[key]
        # (1) cluster with any registered constant (simple or opaque)
        for k, v in zip(self.keys, self.vals):
            if abs(f - k) <= self.REL * max(abs(f), abs(k)):
                if v != exact:
                    self.snapped += 1
                    self.max_rel = max(self.max_rel, abs(f - k) / max(abs(f), abs(k)))
                self.cache[key] = v
                return v
        # (2) simple rational: statistically significant approximation (error << 1/q^2)
        val = None
        cl = -1
        s = None
        for den, tol in self.SIMPLE_TIERS:
            s = exact.limit_denominator(den)
            if abs(s - exact) <= abs(exact) * tol:
                break
            s = None
        if s is not None:
            # also for exact inputs of the reference: tables computed exactly from rounded collocation
            # points are within an ulp of the true rational (e.g. 17/2), which is what CasADi's double snaps to
            val = s
            if s != exact:
                self.snapped += 1
        if val is None:
            # (3) ratio class of an opaque constant
            found = None
            for k, v, kc in zip(self.keys, self.vals, self.cls):
                if kc < 0:
                    continue
                q = f / k
                r = Fraction(q).limit_denominator(self.RATIO_DEN)
                if r != 0 and abs(r.numerator) <= self.RATIO_DEN and abs(float(r) - q) <= self.RATIO_TOL * abs(q):
                    if found is None:
                        found = (kc, r * v)
                    elif found[0] != kc:
                        raise Unsupported('ambiguous constant folding: %r relates to two constant classes' % f)
            if found is not None:
                cl, val = found
                if val != exact:
                    self.snapped += 1
                    self.max_rel = max(self.max_rel, abs(float(val) - f) / abs(f))
            else:
                cl, val = self.n_classes, exact
                self.n_classes += 1
        self.keys.append(f)
        self.vals.append(val)
        self.cls.append(cl)
        self.cache[key] = val
        return val


# ------------------------------------------------------------------------------------------
# domains
# ------------------------------------------------------------------------------------------
class FloatDomain:
    name = 'float'

    def const(self, c):
        return float(c)

    def nan(self):
        return float('nan')

    def nl1(self, a):
        return math.erf(a)

    def nl2(self, a, b):
        return math.hypot(a, b)

    def div(self, a, b):
        if b == 0:
            return float('nan')
        return a / b

    def ite(self, c, a, b):
        return a if c else b

    def lt(self, a, b):
        return a < b

    def le(self, a, b):
        return a <= b

    def eq(self, a, b):
        return a == b

    def b2r(self, c):
        return 1.0 if c else 0.0

    def is_const(self, a):
        return True

    def floor(self, a):
        return float(math.floor(a))

    def sqrt(self, a):
        return math.sqrt(a) if a >= 0 else float('nan')


class Z3Domain:
    """z3 Real terms; erf/hypot as uninterpreted functions unless `poly` is set."""
    name = 'z3'

    def __init__(self, pool, poly=False, ctx=None):
        import z3
        self.z3 = z3
        self.pool = pool
        self.poly = poly
        self.U1 = z3.Function('U1', z3.RealSort(), z3.RealSort())
        self.U2 = z3.Function('U2', z3.RealSort(), z3.RealSort(), z3.RealSort())
        self._nan = 0
        self.saw_nan = False

    def const(self, c):
        v = self.pool.canon(c)
        return self.z3.RealVal(str(v)) if v.denominator != 1 else self.z3.RealVal(v.numerator)

    def nan(self):
        self._nan += 1
        self.saw_nan = True
        return self.z3.Real('nan!%d' % self._nan)

    def _isnum(self, a):
        return self.z3.is_rational_value(a)

    def _tofloat(self, a):
        return float(Fraction(a.numerator_as_long(), a.denominator_as_long()))

    def nl1(self, a):
        a = self.z3.simplify(a) if not isinstance(a, (int, float)) else self.const(a)
        if self.poly:
            return POLY1(a)
        if self._isnum(a):     # CasADi constant-folds erf(const)
            return self.const(math.erf(self._tofloat(a)))
        return self.U1(a)

    def nl2(self, a, b):
        if self.poly:
            return POLY2(a, b)
        a = self.z3.simplify(a)
        b = self.z3.simplify(b)
        if self._isnum(a) and self._isnum(b):
            return self.const(math.hypot(self._tofloat(a), self._tofloat(b)))
        return self.U2(a + b, a * b)   # hypot is symmetric and CasADi may swap its operands: U2 models any symmetric binary function

    def div(self, a, b):
        return a / b

    def ite(self, c, a, b):
        return self.z3.If(c, a, b)

    def lt(self, a, b):
        return a < b

    def le(self, a, b):
        return a <= b

    def eq(self, a, b):
        return a == b

    def b2r(self, c):
        return self.z3.If(c, self.z3.RealVal(1), self.z3.RealVal(0))

    def floor(self, a):
        return self.z3.ToReal(self.z3.ToInt(a))

    def sqrt(self, a):
        raise Unsupported('sqrt')


class RZ:
    """reference-side value: exact constant ('k') or z3 term ('t').  Constant sub-expressions are folded
    exactly (CasADi folds them in floating point on the implementation side); a constant is passed
    through the pool when it is embedded into a term, so both foldings meet in one canonical value."""
    __slots__ = ('k', 't', 'dom')

    def __init__(self, dom, k=None, t=None):
        self.dom = dom
        self.k = k
        self.t = t

    def emb(self):
        if self.t is not None:
            return self.t
        return self.dom._num(self.dom.pool.canon(self.k))

    def _lift(self, o):
        if isinstance(o, RZ):
            return o
        if isinstance(o, (int, Fraction)):
            return RZ(self.dom, k=Fraction(o))
        if isinstance(o, float):
            return RZ(self.dom, k=Fraction(o))
        return self.dom.wrap(o)

    def _bin(self, o, fk, ft):
        o = self._lift(o)
        if self.k is not None and o.k is not None:
            return RZ(self.dom, k=fk(self.k, o.k))
        return RZ(self.dom, t=ft(self.emb(), o.emb()))

    def __add__(self, o):
        o = self._lift(o)
        if self.k is not None and self.k == 0:
            return o
        if o.k is not None and o.k == 0:
            return self
        return self._bin(o, lambda a, b: a + b, lambda a, b: a + b)

    def __radd__(self, o):
        return self._lift(o).__add__(self)

    def __sub__(self, o):
        o = self._lift(o)
        if o.k is not None and o.k == 0:
            return self
        r = self._bin(o, lambda a, b: a - b, lambda a, b: a - b)
        if r.t is not None and self.t is not None and o.t is not None and _small(r.t):
            # CasADi folds e.g. (t0 + 1/2) - t0 -> 1/2: differences of small terms are checked for constness
            r = self.dom._constify(r)
        return r

    def __rsub__(self, o):
        return self._lift(o).__sub__(self)

    def __mul__(self, o):
        o = self._lift(o)
        for a, b in ((self, o), (o, self)):
            if a.k is not None:
                if a.k == 0:
                    return RZ(self.dom, k=Fraction(0))
                if a.k == 1:
                    return b
        return self._bin(o, lambda a, b: a * b, lambda a, b: a * b)

    def __rmul__(self, o):
        return self._lift(o).__mul__(self)

    def __truediv__(self, o):
        o = self._lift(o)
        if o.k is not None:
            if o.k == 0:
                raise Unsupported('division by constant zero in reference')
            if o.k == 1:
                return self
            if self.k is not None:
                return RZ(self.dom, k=self.k / o.k)
        if self.k is not None and self.k == 0:
            return self
        return RZ(self.dom, t=self.emb() / o.emb())

    def __rtruediv__(self, o):
        return self._lift(o).__truediv__(self)

    def __neg__(self):
        if self.k is not None:
            return RZ(self.dom, k=-self.k)
        return RZ(self.dom, t=-self.t)

    def __repr__(self):
        return 'RZ(%s)' % (self.k if self.k is not None else self.t)


def _small(t, budget=40):
    n = 0
    stack = [t]
    while stack:
        e = stack.pop()
        n += 1
        if n > budget:
            return False
        stack.extend(e.children())
    return True


class RefZ3Domain:
    """domain of the reference semantics on the SMT side: RZ values"""
    name = 'refz3'

    def __init__(self, zdom):
        self.zdom = zdom
        self.pool = zdom.pool
        self.z3 = zdom.z3
        self.poly = zdom.poly

    def _num(self, v):
        return self.z3.RealVal(str(v)) if v.denominator != 1 else self.z3.RealVal(v.numerator)

    def wrap(self, term):
        """z3 term (from the implementation view) -> RZ"""
        if isinstance(term, RZ):
            return term
        z3 = self.z3
        st = z3.simplify(term) if not z3.is_rational_value(term) else term
        if z3.is_rational_value(st):
            return RZ(self, k=Fraction(st.numerator_as_long(), st.denominator_as_long()))
        return RZ(self, t=term)

    def const(self, c):
        return RZ(self, k=self.pool.canon(c if isinstance(c, (int, Fraction)) else float(c)))

    def _constify(self, a):
        """a term that simplifies to a numeral is a constant (CasADi folds e.g. (t0+1/2)-t0)"""
        if a.k is None:
            st = self.z3.simplify(a.t)
            if self.z3.is_rational_value(st):
                return RZ(self, k=Fraction(st.numerator_as_long(), st.denominator_as_long()))
        return a

    def nl1(self, a):
        a = RZ._lift(self.const(0), a)
        if self.poly:
            return POLY1(a)
        a = self._constify(a)
        if a.k is not None:
            return RZ(self, k=Fraction(math.erf(float(a.k))))
        return RZ(self, t=self.zdom.U1(a.emb()))

    def nl2(self, a, b):
        a = RZ._lift(self.const(0), a)
        b = RZ._lift(self.const(0), b)
        if self.poly:
            return POLY2(a, b)
        a = self._constify(a)
        b = self._constify(b)
        if a.k is not None and b.k is not None:
            return RZ(self, k=Fraction(math.hypot(float(a.k), float(b.k))))
        ae, be = a.emb(), b.emb()
        return RZ(self, t=self.zdom.U2(ae + be, ae * be))

    def div(self, a, b):
        return RZ._lift(self.const(0), a) / b


def emb(v):
    if isinstance(v, QZ):
        return v.term()
    return v.emb() if isinstance(v, RZ) else v


class QZ:
    """rational function n/d over z3 terms (d None = 1).  Keeps symbolic division out of the terms so that
    identities needing cancellation (x/DT*DT) become polynomial identities after cross-multiplication."""
    __slots__ = ('n', 'd')

    def __init__(self, n, d=None):
        self.n = n
        self.d = d

    @staticmethod
    def lift(o):
        if isinstance(o, QZ):
            return o
        if isinstance(o, RZ):
            return QZ(o.emb())
        return QZ(o)

    def term(self):
        return self.n if self.d is None else self.n / self.d

    def __add__(self, o):
        o = QZ.lift(o)
        if self.d is None and o.d is None:
            return QZ(self.n + o.n)
        if self.d is not None and o.d is not None and self.d.eq(o.d):
            return QZ(self.n + o.n, self.d)
        sd = self.d if self.d is not None else 1
        od = o.d if o.d is not None else 1
        return QZ(self.n * od + o.n * sd, sd * od if (self.d is not None and o.d is not None) else (self.d if self.d is not None else o.d))

    __radd__ = __add__

    def __neg__(self):
        return QZ(-self.n, self.d)

    def __sub__(self, o):
        return self + (-QZ.lift(o))

    def __rsub__(self, o):
        return QZ.lift(o) + (-self)

    def __mul__(self, o):
        o = QZ.lift(o)
        d = self.d if o.d is None else (o.d if self.d is None else self.d * o.d)
        return QZ(self.n * o.n, d)

    __rmul__ = __mul__

    def __truediv__(self, o):
        o = QZ.lift(o)
        import z3
        if o.d is None and z3.is_rational_value(o.n):
            return QZ(self.n / o.n, self.d)
        # (n1/d1)/(n2/d2) = n1 d2 / (d1 n2)
        n = self.n if o.d is None else self.n * o.d
        d = o.n if self.d is None else self.d * o.n
        return QZ(n, d)

    def __rtruediv__(self, o):
        return QZ.lift(o) / self


class FracZ3Domain:
    """z3 domain whose values are QZ rational functions (division by non-constants kept symbolic)"""
    name = 'z3frac'

    def __init__(self, zdom):
        self.zdom = zdom
        self.z3 = zdom.z3

    def const(self, c):
        return QZ(self.zdom.const(c))

    def nan(self):
        return QZ(self.zdom.nan())

    def nl1(self, a):
        return QZ(self.zdom.nl1(QZ.lift(a).term()))

    def nl2(self, a, b):
        return QZ(self.zdom.nl2(QZ.lift(a).term(), QZ.lift(b).term()))

    def div(self, a, b):
        return QZ.lift(a) / b

    def ite(self, c, a, b):
        return QZ(self.z3.If(c, QZ.lift(a).term(), QZ.lift(b).term()))

    def lt(self, a, b):
        return QZ.lift(a).term() < QZ.lift(b).term()

    def le(self, a, b):
        return QZ.lift(a).term() <= QZ.lift(b).term()

    def eq(self, a, b):
        return QZ.lift(a).term() == QZ.lift(b).term()

    def b2r(self, c):
        return QZ(self.zdom.b2r(c))

    def floor(self, a):
        return QZ(self.zdom.floor(QZ.lift(a).term()))

    def sqrt(self, a):
        raise Unsupported('sqrt')


def POLY1(a):
    """polynomial stand-in for the unary marker (polynomial mode)"""
    return a * a + a / 3 + 1


def POLY2(a, b):
    return a * b + b * b / 2 - a


class PolyFloatDomain(FloatDomain):
    name = 'polyfloat'

    def nl1(self, a):
        return POLY1(a)

    def nl2(self, a, b):
        return POLY2(a, b)


# ------------------------------------------------------------------------------------------
# program
# ------------------------------------------------------------------------------------------
def _dense(e):
    e = ca.MX(e)
    return ca.densify(e)


class SXProgram:
    """`Function(inputs, outputs).expand()` with a domain-generic interpreter.

    inputs : list of MX symbols (pure symbolic, dense)
    outputs: list of MX expressions (densified, column-major flattening)
    """

    def __init__(self, inputs, outputs, name='prog'):
        self.inputs = list(inputs)
        self.outputs = [_dense(o) for o in outputs]
        self.shapes = [o.shape for o in self.outputs]
        try:
            mxf = ca.Function(name, self.inputs, [ca.vec(o) for o in self.outputs])
        except Exception as e:
            raise HarnessError('cannot build Function: %s' % e)
        if mxf.has_free():
            raise HarnessError('free variables in traced expressions: %s' % mxf.get_free())
        self.mxf = mxf
        try:
            self.f = mxf.expand()
        except Exception as e:
            raise Unsupported('not SX-expandable: %s' % str(e).splitlines()[0])
        self.n_instr = self.f.n_instructions()
        self.in_sizes = [i.numel() for i in self.inputs]

    def run(self, dom, in_vals):
        """in_vals: list (per input) of lists of scalars in domain `dom`.
        returns list (per output) of flat lists (column-major)."""
        f = self.f
        work = [None] * f.sz_w()
        outs = [[None] * (s[0] * s[1]) for s in self.shapes]
        wc = {}
        for k in range(self.n_instr):
            op = f.instruction_id(k)
            o = f.instruction_output(k)
            i = f.instruction_input(k)
            if op != ca.OP_OUTPUT and o:
                wc.pop(o[0], None)
            if op == ca.OP_CONST:
                c = f.instruction_constant(k)
                wc[o[0]] = c
                if math.isnan(c):
                    work[o[0]] = dom.nan()
                elif math.isinf(c):
                    raise Unsupported('infinite constant in expression')
                else:
                    work[o[0]] = dom.const(c)
            elif op == ca.OP_INPUT:
                work[o[0]] = in_vals[i[0]][i[1]]
            elif op == ca.OP_OUTPUT:
                outs[o[0]][o[1]] = work[i[0]]
            elif op == ca.OP_ADD:
                work[o[0]] = work[i[0]] + work[i[1]]
            elif op == ca.OP_SUB:
                work[o[0]] = work[i[0]] - work[i[1]]
            elif op == ca.OP_MUL:
                work[o[0]] = work[i[0]] * work[i[1]]
            elif op == ca.OP_DIV:
                work[o[0]] = dom.div(work[i[0]], work[i[1]])
            elif op == ca.OP_NEG:
                work[o[0]] = -work[i[0]]
            elif op == ca.OP_SQ:
                work[o[0]] = work[i[0]] * work[i[0]]
            elif op == ca.OP_TWICE:
                work[o[0]] = work[i[0]] * dom.const(2)
            elif op == ca.OP_INV:
                work[o[0]] = dom.div(dom.const(1), work[i[0]])
            elif op == ca.OP_ASSIGN:
                work[o[0]] = work[i[0]]
            elif op == ca.OP_ERF:
                work[o[0]] = dom.nl1(work[i[0]])
            elif op == ca.OP_HYPOT:
                work[o[0]] = dom.nl2(work[i[0]], work[i[1]])
            elif op in (ca.OP_CONSTPOW, ca.OP_POW):
                e = wc.get(i[1])
                if e is None or e != int(e) or abs(e) > 12:
                    raise Unsupported('pow with non-integer/non-constant exponent')
                e = int(e)
                b = work[i[0]]
                r = dom.const(1)
                for _ in range(abs(e)):
                    r = r * b
                work[o[0]] = r if e >= 0 else dom.div(dom.const(1), r)
            elif op == ca.OP_LT:
                work[o[0]] = dom.b2r(dom.lt(work[i[0]], work[i[1]]))
            elif op == ca.OP_LE:
                work[o[0]] = dom.b2r(dom.le(work[i[0]], work[i[1]]))
            elif op == ca.OP_EQ:
                work[o[0]] = dom.b2r(dom.eq(work[i[0]], work[i[1]]))
            elif op == ca.OP_FMIN:
                work[o[0]] = dom.ite(dom.le(work[i[0]], work[i[1]]), work[i[0]], work[i[1]])
            elif op == ca.OP_FMAX:
                work[o[0]] = dom.ite(dom.le(work[i[0]], work[i[1]]), work[i[1]], work[i[0]])
            elif op == ca.OP_FABS:
                work[o[0]] = dom.ite(dom.le(dom.const(0), work[i[0]]), work[i[0]], -work[i[0]])
            elif op == ca.OP_IF_ELSE_ZERO:
                work[o[0]] = dom.ite(dom.eq(work[i[0]], dom.const(0)), dom.const(0), work[i[1]])
            elif op == ca.OP_FLOOR:
                work[o[0]] = dom.floor(work[i[0]])
            elif op == ca.OP_SQRT:
                work[o[0]] = dom.sqrt(work[i[0]])
            else:
                raise Unsupported('opcode %s' % OPN.get(op, op))
        return outs

    # -- translator self-validation (Serval style) -----------------------------------------
    def selfcheck(self, rng, n=2, tol=1e-9):
        dom = FloatDomain()
        for _ in range(n):
            vals = [[rng.uniform(0.3, 1.7) * rng.choice([1, 1, -1]) for _ in range(s)] for s in self.in_sizes]
            mine = self.run(dom, vals)
            theirs = self.mxf.call([ca.DM(v).reshape(i.shape) if len(v) else ca.DM(i.shape[0], i.shape[1]) for v, i in zip(vals, self.inputs)])
            for a, b in zip(mine, theirs):
                b = [float(x) for x in ca.vec(ca.DM(b)).full().flatten()] if b.numel() else []
                if len(a) != len(b):
                    raise HarnessError('selfcheck: size mismatch')
                for x, y in zip(a, b):
                    if x is None:
                        raise HarnessError('selfcheck: output not written')
                    if math.isnan(x) and math.isnan(y):
                        continue
                    if math.isinf(x) and math.isinf(y) and (x > 0) == (y > 0):
                        continue
                    if not (abs(x - y) <= tol * max(1.0, abs(x), abs(y))):
                        raise HarnessError('selfcheck: translator %r vs casadi %r' % (x, y))
        return True
