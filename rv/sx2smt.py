"""CasADi SX instruction stream -> SMT terms (z3), floats or exact rationals.

One interpreter (`SXProgram.run`) parametrised by an arithmetic domain.  The float domain is
run against CasADi's own numeric evaluation of the same Function on every trace
(`SXProgram.selfcheck`): a disagreement is a harness error, never a verdict.

Markers: erf -> uninterpreted U1, hypot -> uninterpreted U2 (see DESIGN.md 2.2).
"""
import math
import random
from fractions import Fraction

import casadi as ca

OPN = {getattr(ca, k): k for k in dir(ca) if k.startswith('OP_')}


class HarnessError(Exception):
    pass


class Unsupported(Exception):
    pass


# ------------------------------------------------------------------------------------------
# constant pool
# ------------------------------------------------------------------------------------------
class ConstPool:
    """Canonical exact value for every float constant met on either side.

    * integers stay themselves;
    * a value within REL of a registered one becomes that one;
    * otherwise snapped to the simplest rational within 2^-40 relative (denominator <= 1e6) if
      there is one, else its exact binary value; then registered.
    """
    REL = 1e-10

    def __init__(self):
        self.keys = []   # floats
        self.vals = []   # Fractions
        self.snapped = 0
        self.max_rel = 0.0

    def canon(self, c):
        if isinstance(c, int):
            return Fraction(c)
        if isinstance(c, Fraction):
            exact = c
            f = float(c)
        else:
            f = float(c)
            if math.isnan(f) or math.isinf(f):
                raise Unsupported('non-finite constant %r' % f)
            exact = Fraction(f)
        if f == int(f) and abs(f) < 2 ** 53:
            return Fraction(int(f))
        for k, v in zip(self.keys, self.vals):
            if abs(f - k) <= self.REL * max(abs(f), abs(k)):
                if v != exact:
                    self.snapped += 1
                    self.max_rel = max(self.max_rel, abs(f - k) / max(abs(f), abs(k)))
                return v
        v = exact
        if not isinstance(c, Fraction):
            s = exact.limit_denominator(10 ** 6)
            if abs(s - exact) <= abs(exact) * Fraction(1, 2 ** 40):
                v = s
        self.keys.append(float(v))
        self.vals.append(v)
        return v


# ------------------------------------------------------------------------------------------
# domains
# ------------------------------------------------------------------------------------------
class FloatDomain:
    name = 'float'

    def const(self, c):
        return float(c)

    def nan(self):
        return float('nan')

    def nl1(self, a):
        return math.erf(a)

    def nl2(self, a, b):
        return math.hypot(a, b)

    def div(self, a, b):
        if b == 0:
            return float('nan')
        return a / b

    def ite(self, c, a, b):
        return a if c else b

    def lt(self, a, b):
        return a < b

    def le(self, a, b):
        return a <= b

    def eq(self, a, b):
        return a == b

    def b2r(self, c):
        return 1.0 if c else 0.0

    def is_const(self, a):
        return True

    def floor(self, a):
        return float(math.floor(a))

    def sqrt(self, a):
        return math.sqrt(a) if a >= 0 else float('nan')


class Z3Domain:
    """z3 Real terms; erf/hypot as uninterpreted functions unless `poly` is set."""
    name = 'z3'

    def __init__(self, pool, poly=False, ctx=None):
        import z3
        self.z3 = z3
        self.pool = pool
        self.poly = poly
        self.U1 = z3.Function('U1', z3.RealSort(), z3.RealSort())
        self.U2 = z3.Function('U2', z3.RealSort(), z3.RealSort(), z3.RealSort())
        self._nan = 0
        self.saw_nan = False

    def const(self, c):
        v = self.pool.canon(c)
        return self.z3.RealVal(str(v)) if v.denominator != 1 else self.z3.RealVal(v.numerator)

    def nan(self):
        self._nan += 1
        self.saw_nan = True
        return self.z3.Real('nan!%d' % self._nan)

    def _isnum(self, a):
        return self.z3.is_rational_value(a)

    def _tofloat(self, a):
        return float(Fraction(a.numerator_as_long(), a.denominator_as_long()))

    def nl1(self, a):
        a = self.z3.simplify(a) if not isinstance(a, (int, float)) else self.const(a)
        if self.poly:
            return POLY1(a)
        if self._isnum(a):     # CasADi constant-folds erf(const)
            return self.const(math.erf(self._tofloat(a)))
        return self.U1(a)

    def nl2(self, a, b):
        if self.poly:
            return POLY2(a, b)
        a = self.z3.simplify(a)
        b = self.z3.simplify(b)
        if self._isnum(a) and self._isnum(b):
            return self.const(math.hypot(self._tofloat(a), self._tofloat(b)))
        return self.U2(a, b)

    def div(self, a, b):
        return a / b

    def ite(self, c, a, b):
        return self.z3.If(c, a, b)

    def lt(self, a, b):
        return a < b

    def le(self, a, b):
        return a <= b

    def eq(self, a, b):
        return a == b

    def b2r(self, c):
        return self.z3.If(c, self.z3.RealVal(1), self.z3.RealVal(0))

    def floor(self, a):
        return self.z3.ToReal(self.z3.ToInt(a))

    def sqrt(self, a):
        raise Unsupported('sqrt')


def POLY1(a):
    """polynomial stand-in for the unary marker (polynomial mode)"""
    return a * a + a / 3 + 1


def POLY2(a, b):
    return a * b + b * b / 2 - a


class PolyFloatDomain(FloatDomain):
    name = 'polyfloat'

    def nl1(self, a):
        return POLY1(a)

    def nl2(self, a, b):
        return POLY2(a, b)


# ------------------------------------------------------------------------------------------
# program
# ------------------------------------------------------------------------------------------
def _dense(e):
    e = ca.MX(e)
    return ca.densify(e)


class SXProgram:
    """`Function(inputs, outputs).expand()` with a domain-generic interpreter.

    inputs : list of MX symbols (pure symbolic, dense)
    outputs: list of MX expressions (densified, column-major flattening)
    """

    def __init__(self, inputs, outputs, name='prog'):
        self.inputs = list(inputs)
        self.outputs = [_dense(o) for o in outputs]
        self.shapes = [o.shape for o in self.outputs]
        try:
            mxf = ca.Function(name, self.inputs, [ca.vec(o) for o in self.outputs])
        except Exception as e:
            raise HarnessError('cannot build Function: %s' % e)
        if mxf.has_free():
            raise HarnessError('free variables in traced expressions: %s' % mxf.get_free())
        self.mxf = mxf
        try:
            self.f = mxf.expand()
        except Exception as e:
            raise Unsupported('not SX-expandable: %s' % str(e).splitlines()[0])
        self.n_instr = self.f.n_instructions()
        self.in_sizes = [i.numel() for i in self.inputs]

    def run(self, dom, in_vals):
        """in_vals: list (per input) of lists of scalars in domain `dom`.
        returns list (per output) of flat lists (column-major)."""
        f = self.f
        work = [None] * f.sz_w()
        outs = [[None] * (s[0] * s[1]) for s in self.shapes]
        wc = {}
        for k in range(self.n_instr):
            op = f.instruction_id(k)
            o = f.instruction_output(k)
            i = f.instruction_input(k)
            if op != ca.OP_OUTPUT and o:
                wc.pop(o[0], None)
            if op == ca.OP_CONST:
                c = f.instruction_constant(k)
                wc[o[0]] = c
                if math.isnan(c):
                    work[o[0]] = dom.nan()
                elif math.isinf(c):
                    raise Unsupported('infinite constant in expression')
                else:
                    work[o[0]] = dom.const(c)
            elif op == ca.OP_INPUT:
                work[o[0]] = in_vals[i[0]][i[1]]
            elif op == ca.OP_OUTPUT:
                outs[o[0]][o[1]] = work[i[0]]
            elif op == ca.OP_ADD:
                work[o[0]] = work[i[0]] + work[i[1]]
            elif op == ca.OP_SUB:
                work[o[0]] = work[i[0]] - work[i[1]]
            elif op == ca.OP_MUL:
                work[o[0]] = work[i[0]] * work[i[1]]
            elif op == ca.OP_DIV:
                work[o[0]] = dom.div(work[i[0]], work[i[1]])
            elif op == ca.OP_NEG:
                work[o[0]] = -work[i[0]]
            elif op == ca.OP_SQ:
                work[o[0]] = work[i[0]] * work[i[0]]
            elif op == ca.OP_TWICE:
                work[o[0]] = work[i[0]] * dom.const(2)
            elif op == ca.OP_INV:
                work[o[0]] = dom.div(dom.const(1), work[i[0]])
            elif op == ca.OP_ASSIGN:
                work[o[0]] = work[i[0]]
            elif op == ca.OP_ERF:
                work[o[0]] = dom.nl1(work[i[0]])
            elif op == ca.OP_HYPOT:
                work[o[0]] = dom.nl2(work[i[0]], work[i[1]])
            elif op in (ca.OP_CONSTPOW, ca.OP_POW):
                e = wc.get(i[1])
                if e is None or e != int(e) or abs(e) > 12:
                    raise Unsupported('pow with non-integer/non-constant exponent')
                e = int(e)
                b = work[i[0]]
                r = dom.const(1)
                for _ in range(abs(e)):
                    r = r * b
                work[o[0]] = r if e >= 0 else dom.div(dom.const(1), r)
            elif op == ca.OP_LT:
                work[o[0]] = dom.b2r(dom.lt(work[i[0]], work[i[1]]))
            elif op == ca.OP_LE:
                work[o[0]] = dom.b2r(dom.le(work[i[0]], work[i[1]]))
            elif op == ca.OP_EQ:
                work[o[0]] = dom.b2r(dom.eq(work[i[0]], work[i[1]]))
            elif op == ca.OP_FMIN:
                work[o[0]] = dom.ite(dom.le(work[i[0]], work[i[1]]), work[i[0]], work[i[1]])
            elif op == ca.OP_FMAX:
                work[o[0]] = dom.ite(dom.le(work[i[0]], work[i[1]]), work[i[1]], work[i[0]])
            elif op == ca.OP_FABS:
                work[o[0]] = dom.ite(dom.le(dom.const(0), work[i[0]]), work[i[0]], -work[i[0]])
            elif op == ca.OP_IF_ELSE_ZERO:
                work[o[0]] = dom.ite(dom.eq(work[i[0]], dom.const(0)), dom.const(0), work[i[1]])
            elif op == ca.OP_FLOOR:
                work[o[0]] = dom.floor(work[i[0]])
            elif op == ca.OP_SQRT:
                work[o[0]] = dom.sqrt(work[i[0]])
            else:
                raise Unsupported('opcode %s' % OPN.get(op, op))
        return outs

    # -- translator self-validation (Serval style) -----------------------------------------
    def selfcheck(self, rng, n=2, tol=1e-9):
        dom = FloatDomain()
        for _ in range(n):
            vals = [[rng.uniform(0.3, 1.7) * rng.choice([1, 1, -1]) for _ in range(s)] for s in self.in_sizes]
            mine = self.run(dom, vals)
            theirs = self.mxf.call([ca.DM(v).reshape(i.shape) if len(v) else ca.DM(i.shape[0], i.shape[1]) for v, i in zip(vals, self.inputs)])
            for a, b in zip(mine, theirs):
                b = [float(x) for x in ca.vec(ca.DM(b)).full().flatten()] if b.numel() else []
                if len(a) != len(b):
                    raise HarnessError('selfcheck: size mismatch')
                for x, y in zip(a, b):
                    if x is None:
                        raise HarnessError('selfcheck: output not written')
                    if math.isnan(x) and math.isnan(y):
                        continue
                    if not (abs(x - y) <= tol * max(1.0, abs(x), abs(y))):
                        raise HarnessError('selfcheck: translator %r vs casadi %r' % (x, y))
        return True
