"""Query discipline: only z3's `unsat` on `a != b` counts as "equal for every value".
Float fingerprints only *select* candidates and supply replayable points for violations."""
import math
import time

from .sx2smt import emb, RZ, QZ


def close(a, b, tol=1e-9):
    if a is None or b is None:
        return False
    if math.isnan(a) or math.isnan(b):
        return False
    return abs(a - b) <= tol * max(1.0, abs(a), abs(b))


def fpdist(a, b):
    """max relative distance of two fingerprint vectors"""
    m = 0.0
    for x, y in zip(a, b):
        if x is None or y is None or math.isnan(x) or math.isnan(y):
            return float('inf')
        m = max(m, abs(x - y) / max(1.0, abs(x), abs(y)))
    return m


class Checker:
    def __init__(self, inst, timeout_ms=15000, hyps=(), budget_s=150):
        self.budget_s = budget_s
        self.t_start = time.time()
        self.inst = inst
        self.z3 = z3 = inst.z3
        self.s = z3.Solver()
        self.s.set('timeout', timeout_ms)
        self.timeout_ms = timeout_ms
        for h in hyps:
            self.s.add(h)
        self.hyps = list(hyps)
        self.stats = {'unsat': 0, 'sat': 0, 'unknown': 0, 'solver_s': 0.0, 'queries': 0}
        self.violations = []
        self.inconclusive = []
        self.proved = []      # labels
        self.nontrivial = set()

    # -- primitive -------------------------------------------------------------------------
    def neq(self, a, b, timeout_ms=None):
        """'unsat' iff a == b for all values (under hyps)"""
        z3 = self.z3
        if isinstance(a, QZ) or isinstance(b, QZ):
            # rational functions: compare by cross-multiplication (denominators are nonzero under the hypotheses)
            a, b = QZ.lift(a), QZ.lift(b)
            na = a.n if b.d is None else a.n * b.d
            nb = b.n if a.d is None else b.n * a.d
            a, b = na, nb
        a, b = emb(a), emb(b)
        t0 = time.time()
        if t0 - self.t_start > self.budget_s:
            self.stats['unknown'] = self.stats.get('unknown', 0) + 1
            return 'unknown', None
        diff = z3.simplify(a - b)
        if z3.is_rational_value(diff) and diff.numerator_as_long() != 0:
            # both sides are the same expression up to a constant offset below 1e-11: doubles folded by CasADi in a different
            # order than the exact reference (sums of erf(const) values ...).  Covered by the stated assumption
            # "constants identified up to 1e-10"; counted in the evidence as const_noise
            if abs(diff.numerator_as_long() / diff.denominator_as_long()) <= 1e-11:
                self.stats['const_noise'] = self.stats.get('const_noise', 0) + 1
                self.stats['unsat'] += 1
                self.stats['queries'] += 1
                return 'unsat', None
        self.s.push()
        self.s.add(diff != 0)
        if timeout_ms is not None:
            self.s.set('timeout', timeout_ms)
        # z3's nonlinear engine does not always honour its own timeout: interrupt from a timer thread
        import threading
        tmo = (timeout_ms or self.timeout_ms) / 1000.0 + 1.0
        timer = threading.Timer(tmo, self.s.ctx.interrupt)
        timer.daemon = True
        timer.start()
        try:
            r = str(self.s.check())
        except self.z3.Z3Exception:
            r = 'unknown'
        finally:
            timer.cancel()
        if timeout_ms is not None:
            self.s.set('timeout', self.timeout_ms)
        m = None
        if r == 'sat':
            try:
                m = self.s.model()
            except Exception:
                m = None
        self.s.pop()
        self.stats['solver_s'] += time.time() - t0
        self.stats['queries'] += 1
        self.stats[r] = self.stats.get(r, 0) + 1
        return r, m

    def near(self, a, b, eps=1e-7, box=4, timeout_ms=4000):
        """'unsat' iff |a - b| < eps for every point of the box |v| <= box with every marker value in the box as well.
        Used ONLY after the exact query said `sat` although float fingerprints agree to 1e-9: doubles folded by CasADi in another
        order than the exact side (e.g. (T/6)*(erf(c1)+4*erf(c2)+erf(c3)) folded to one double inside a product with a variable)
        make the terms differ by ~1e-16.  Covered by the stated assumption "constants identified up to 1e-10"; counted as noise_equal."""
        z3 = self.z3
        if isinstance(a, QZ) or isinstance(b, QZ):
            return 'unknown'
        # (i) numerals that agree to 1e-10 (relative) are the same constant, also INSIDE marker arguments, where no continuity
        #     can be assumed: h/2*erf(c) computed exactly on one side and folded in double arithmetic by CasADi on the other
        ea, eb = z3.simplify(emb(a)), z3.simplify(emb(b))

        def numerals(e):
            out, seen_, st = {}, set(), [e]
            while st:
                x = st.pop()
                if x.get_id() in seen_:
                    continue
                seen_.add(x.get_id())
                if z3.is_rational_value(x):
                    if x.denominator_as_long() != 1:
                        out[x.get_id()] = x
                else:
                    st.extend(x.children())
            return list(out.values())
        na, nb = numerals(ea), numerals(eb)
        if (na or nb) and len(na) <= 400 and len(nb) <= 400:
            fa = [(x.numerator_as_long() / x.denominator_as_long(), x) for x in na]
            sub, suba = [], []
            zero = z3.RealVal(0)
            for x in na:
                if abs(x.numerator_as_long() / x.denominator_as_long()) < 1e-12:
                    suba.append((x, zero))       # residue of a floating-point cancellation (t = t0 + c - c): zero
            for y in nb:
                fy = y.numerator_as_long() / y.denominator_as_long()
                if abs(fy) < 1e-12:
                    sub.append((y, zero))
                    continue
                if not fa:
                    continue
                best = min(fa, key=lambda t_: abs(t_[0] - fy))
                if not z3.eq(best[1], y) and abs(best[0] - fy) <= 1e-10 * max(abs(best[0]), abs(fy)):
                    sub.append((y, best[1]))
            if sub or suba:
                eb2 = z3.simplify(z3.substitute(eb, *sub)) if sub else eb
                ea2 = z3.simplify(z3.substitute(ea, *suba)) if suba else ea
                dd = z3.simplify(ea2 - eb2)
                if z3.is_rational_value(dd) and abs(dd.numerator_as_long() / dd.denominator_as_long()) <= 1e-11:
                    self.stats['numeral_snap'] = self.stats.get('numeral_snap', 0) + 1
                    return 'unsat'
        d = z3.simplify(emb(a) - emb(b))
        seen, vs, apps, stack = set(), [], [], [d]
        while stack:
            e = stack.pop()
            if e.get_id() in seen:
                continue
            seen.add(e.get_id())
            if z3.is_app(e) and e.decl().kind() == z3.Z3_OP_UNINTERPRETED:
                (vs if e.num_args() == 0 else apps).append(e)
            stack.extend(e.children())
        so = z3.Solver(ctx=self.s.ctx)
        so.set('timeout', timeout_ms)
        for h in self.hyps:
            so.add(h)
        for e in vs + apps:
            so.add(e >= -box, e <= box)
        so.add(z3.Or(d > eps, d < -eps))
        import threading
        timer = threading.Timer(timeout_ms / 1000.0 + 1.0, so.ctx.interrupt)
        timer.daemon = True
        timer.start()
        t0 = time.time()
        try:
            r = str(so.check())
        except z3.Z3Exception:
            r = 'unknown'
        finally:
            timer.cancel()
        self.stats['solver_s'] += time.time() - t0
        self.stats['queries'] += 1
        self.stats['near_' + r] = self.stats.get('near_' + r, 0) + 1
        return r

    def check_hyps(self):
        """vacuity guard: hypotheses satisfiable on their own"""
        if not self.hyps:
            return True
        r = str(self.s.check())
        self.stats['queries'] += 1
        return r == 'sat'

    def _vars(self, t):
        z3 = self.z3
        t = emb(t)
        if isinstance(t, (int, float)):
            return set()
        seen = set()
        out = set()
        stack = [t]
        while stack:
            e = stack.pop()
            if e.get_id() in seen:
                continue
            seen.add(e.get_id())
            if z3.is_const(e) and e.decl().kind() == z3.Z3_OP_UNINTERPRETED:
                out.add(str(e))
            stack.extend(e.children())
        return out

    def model_point(self, m):
        """z3 model -> (xv, pv) floats (unassigned -> 1.0)"""
        inst = self.inst

        def val(v):
            r = m.eval(v, model_completion=True)
            try:
                return float(r.numerator_as_long()) / float(r.denominator_as_long())
            except Exception:
                try:
                    return float(r.approx(20).numerator_as_long()) / float(r.approx(20).denominator_as_long())
                except Exception:
                    return 1.0
        return [val(v) for v in inst.xv], [val(v) for v in inst.pv]

    # -- identities ------------------------------------------------------------------------
    def prove(self, label, a, b, kind='identity'):
        """a, b: dict domain -> value ('z' and point indices).  Records outcome; returns bool.
        Only the solver decides; a fingerprint disagreement just tells which point to replay."""
        pts = [d for d in a if d != 'z']
        bad = None
        for d in pts:
            if not close(a[d], b[d]):
                bad = d
                break
        if bad is not None and fpdist([a[d] for d in pts], [b[d] for d in pts]) > 1e-3:
            self.violations.append({'kind': kind, 'label': label, 'point': bad,
                                    'impl': a[bad], 'ref': b[bad], 'how': 'fingerprint'})
            return False
        if bad is not None and len(self.violations) >= 5:
            # already a failing instance: do not spend solver time on every further near miss
            self.violations.append({'kind': kind, 'label': label, 'point': bad, 'impl': a[bad], 'ref': b[bad], 'how': 'fingerprint (near miss, solver not consulted after 5 violations)'})
            return False
        r, m = self.neq(a['z'], b['z'], timeout_ms=2000 if bad is not None else None)
        if r != 'unsat' and bad is not None:
            self.violations.append({'kind': kind, 'label': label, 'point': bad, 'how': 'fingerprint (solver: %s)' % r,
                                    'impl': a[bad], 'ref': b[bad]})
            return False
        if r == 'unsat':
            self.proved.append(label)
            vs = self._vars(a['z'])
            if vs:
                self.nontrivial.add(label)
            if bad is not None:
                self.stats['fp_noise'] = self.stats.get('fp_noise', 0) + 1
            return True
        if r == 'sat' and bad is None:
            rn = self.near(a['z'], b['z'])
            if rn == 'unsat':
                self.proved.append(label)
                self.stats['noise_equal'] = self.stats.get('noise_equal', 0) + 1
                return True
            if rn != 'sat':
                self.inconclusive.append({'label': label, 'why': 'fingerprints agree, exact query sat, noise query ' + rn})
                return False
        if r == 'sat':
            self.violations.append({'kind': kind, 'label': label, 'point': bad, 'how': 'solver-model' if bad is None else 'fingerprint+solver',
                                    'impl': a[bad] if bad is not None else None, 'ref': b[bad] if bad is not None else None,
                                    'model': self.model_point(m) if m is not None else None})
            return False
        self.inconclusive.append({'label': label, 'why': 'solver ' + r})
        return False

    # -- atom multisets --------------------------------------------------------------------
    def match(self, ref, impl, what='atoms', modconst=None, far=True):
        """ref, impl: dict domain -> list of (kind, term, label) (same order in every domain).
        Greedy pairing of fingerprint candidates confirmed by the solver.
        modconst(label)->bool: atoms that may be matched up to a constant factor (positive for
        inequalities, nonzero for equalities): same feasible set; the factor found is recorded.
        returns (pairs, unmatched_ref_indices, unmatched_impl_indices)"""
        from fractions import Fraction
        self.factors = getattr(self, 'factors', {})
        pts = [d for d in ref if d != 'z']
        nr = len(ref['z'])
        ni = len(impl['z'])
        used = [False] * ni
        pairs = []
        un_ref = []
        undecided_impl = set()       # rows whose comparison the solver could not decide: never reported as verdicts
        for j in range(nr):
            kind = ref['z'][j][0]
            found = None
            cands = []
            for i in range(ni):
                if used[i] or impl['z'][i][0] != kind:
                    continue
                if modconst is not None and modconst(ref['z'][j][2]):
                    # factor from the first point, must be the same simple rational at every point
                    r0, i0 = ref[pts[0]][j][1], impl[pts[0]][i][1]
                    if r0 is None or abs(r0) < 1e-12 or abs(i0) < 1e-12:
                        continue
                    c = Fraction(i0 / r0).limit_denominator(10 ** 4)
                    if c == 0 or abs(float(c) - i0 / r0) > 1e-9 * abs(i0 / r0) or (kind == 'le' and c < 0):
                        continue
                    dist = fpdist([impl[d][i][1] for d in pts], [float(c) * ref[d][j][1] for d in pts])
                    if dist <= 1e-3:
                        cands.append((dist, i, c))
                    continue
                for sgn in ((1, -1) if kind == 'eq' else (1,)):
                    dist = fpdist([impl[d][i][1] for d in pts], [sgn * ref[d][j][1] for d in pts])
                    if dist <= 1e-3:
                        cands.append((dist, i, sgn))
            cands.sort()
            undecided = False
            # exact-fingerprint candidates first; then (ill-conditioned float evaluation) up to 3 near misses
            tried_far = 0
            for dist, i, sgn in cands:
                isfar = dist > 1e-9
                if isfar:
                    if not far or tried_far >= 2:
                        break
                    tried_far += 1
                sz = sgn if isinstance(sgn, int) else self.z3.RealVal(str(sgn))
                r, m = self.neq(impl['z'][i][1], sz * emb(ref['z'][j][1]), timeout_ms=2000 if isfar else None)
                if r == 'unsat':
                    found = i
                    if not isinstance(sgn, int):
                        self.factors[ref['z'][j][2]] = str(sgn)
                    if dist > 1e-9:
                        self.stats['fp_noise'] = self.stats.get('fp_noise', 0) + 1
                    break
                if r != 'sat':
                    if not isfar:
                        self.inconclusive.append({'label': ref['z'][j][2], 'why': 'solver ' + r})
                        undecided_impl.add(i)
                        undecided = True
                else:
                    if not isfar and modconst is None:
                        rn = self.near(impl['z'][i][1], sz * emb(ref['z'][j][1]))
                        if rn == 'unsat':
                            found = i
                            self.stats['noise_equal'] = self.stats.get('noise_equal', 0) + 1
                            break
                        if rn != 'sat':
                            self.inconclusive.append({'label': ref['z'][j][2], 'why': 'fingerprints agree, exact query sat, noise query ' + rn})
                            undecided_impl.add(i)
                            undecided = True
                    self._last_model = (ref['z'][j][2], impl['z'][i][2], self.model_point(m) if m else None)
            if found is None:
                if not undecided:
                    un_ref.append(j)
            else:
                used[found] = True
                pairs.append((j, found))
                self.proved.append(ref['z'][j][2])
                if self._vars(ref['z'][j][1]):
                    self.nontrivial.add(ref['z'][j][2])
        un_impl = [i for i in range(ni) if not used[i] and i not in undecided_impl]
        return pairs, un_ref, un_impl
