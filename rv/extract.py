"""Run the real rockit on a ProblemSpec (public API only) and pull out the NLP it would solve."""
import contextlib
import io
import math
import os
import sys
from fractions import Fraction

import casadi as ca
import numpy as np

from . import dsl
from .dsl import E, ev
from .sx2smt import SXProgram, HarnessError, Unsupported, POLY1, POLY2

ROCKIT_SRC = os.environ.get('ROCKIT_SRC')
if ROCKIT_SRC:
    sys.path.insert(0, ROCKIT_SRC)
import rockit  # noqa: E402
from rockit import (Ocp, MultipleShooting, SingleShooting, DirectCollocation, FreeTime,  # noqa
                    UniformGrid, GeometricGrid, FreeGrid)
from rockit.sampling_method import FunctionGrid  # noqa

ROCKIT_FILE = os.path.dirname(os.path.abspath(rockit.__file__))


@contextlib.contextmanager
def quiet():
    """rockit prints debugging noise; keep our stdout clean"""
    buf = io.StringIO()
    with contextlib.redirect_stdout(buf):
        yield buf


class MXDomain:
    name = 'mx'

    def __init__(self, poly=False):
        self.poly = poly

    def const(self, c):
        return float(c)

    def inf(self, sign):
        return float('inf') * sign

    def nl1(self, a):
        return POLY1(a) if self.poly else ca.erf(a)

    def nl2(self, a, b):
        return POLY2(a, b) if self.poly else ca.hypot(a, b)

    def div(self, a, b):
        return a / b


def fnum(v):
    """Fraction/float/list -> float / nested list"""
    if isinstance(v, (list, tuple)):
        return [fnum(x) for x in v]
    return float(v)


def make_grid(g):
    kind, kw = g
    kw = dict(kw)
    for k in ('min', 'max', 'growth_factor'):
        if k in kw:
            kw[k] = float(kw[k])
    if kind == 'uniform':
        return UniformGrid(**kw)
    if kind == 'geometric':
        gf = kw.pop('growth_factor')
        return GeometricGrid(gf, **kw)
    if kind == 'free':
        return FreeGrid(**kw)
    if kind == 'function':
        pts = kw.pop('points')
        pts = [float(p) for p in pts]
        return FunctionGrid(lambda N: list(pts), **kw)
    if kind == 'density':
        # DensityGrid(1 + tau): nodes come from a numeric integrator (not encodable) - used by relational checks only
        from rockit import DensityGrid
        import casadi as _ca
        tau = _ca.MX.sym('tau')
        return DensityGrid(1 + tau, **kw)
    if kind == 'dense_edges':
        from rockit import DenseEdgesGrid
        return DenseEdgesGrid(**kw)
    raise ValueError(kind)


def make_method(cfg):
    kw = dict(N=cfg.N, M=cfg.M, grid=make_grid(cfg.grid))
    if cfg.method == 'MS':
        return MultipleShooting(intg=cfg.intg, **kw)
    if cfg.method == 'SS':
        return SingleShooting(intg=cfg.intg, **kw)
    if cfg.method == 'DC':
        return DirectCollocation(degree=cfg.degree, scheme=cfg.scheme, **kw)
    raise ValueError(cfg.method)


class Built:
    """the rockit objects for one Spec"""
    pass


def state_groups(spec):
    if spec.xshape:
        return list(spec.xshape)
    return [(1, 1)] * spec.nx


def declare(spec, cfg, poly=False, ocp=None, stage=None, with_method=True, parent_syms=None):
    """Declare `spec` on a fresh Ocp (or on `stage` of `ocp`).  Returns Built."""
    b = Built()
    dom = MXDomain(poly)
    b.dom = dom
    b.spec = spec
    b.cfg = cfg
    b.psym = {}
    b.vsym = {}
    if parent_syms:
        b.psym.update(parent_syms[0])
        b.vsym.update(parent_syms[1])

    def hv(kind):
        k, v = kind
        if k == 'num':
            return float(v)
        if k == 'free':
            return FreeTime(float(v))
        return None   # 'param': patched below

    if stage is None:
        kw = {}
        kw['t0'] = hv(spec.t0) if spec.t0[0] != 'param' else 0
        kw['T'] = hv(spec.T) if spec.T[0] != 'param' else 1
        if getattr(spec, 'shared_freetime', False) and spec.t0[0] == 'free' and spec.T[0] == 'free' and spec.t0[1] == spec.T[1]:
            kw['T'] = kw['t0']          # one and the same FreeTime object for both ends of the horizon
        ocp = Ocp(**kw)
        stage = ocp
    b.ocp = ocp
    st = b.stage = stage
    # parameters / variables first (horizon may be one)
    for s in spec.params:
        grid = 'control' if s.grid.startswith('control') else s.grid
        p = st.parameter(s.rows, s.cols, grid=grid, include_last=s.grid.endswith('+'))
        b.psym[s.name] = p
    if spec.t0[0] == 'param':
        st.set_t0(b.psym[spec.t0[1]])
    if spec.T[0] == 'param':
        st.set_T(b.psym[spec.T[1]])
    for s in spec.vars:
        grid = 'control' if s.grid.startswith('control') else s.grid
        v = st.variable(s.rows, s.cols, grid=grid, include_last=s.grid.endswith('+'),
                        scale=fnum(s.scale) if not isinstance(s.scale, (list, tuple)) else ca.DM(fnum(s.scale)))
        b.vsym[s.name] = v
    # states
    b.xs = []
    b.xel = []
    i = 0
    for gi, (r, c) in enumerate(state_groups(spec)):
        sc = 1
        if spec.xscale is not None:
            sl = [float(v) for v in spec.xscale[i:i + r * c]]
            sc = sl[0] if r * c == 1 else ca.reshape(ca.DM(sl), r, c)
        x = st.state(r, c, scale=sc)
        b.xs.append(x)
        for j in range(r * c):
            b.xel.append(x if r * c == 1 else x[j])
        i += r * c
    assert i == spec.nx, 'xshape does not add up to nx'
    b.us = []
    b.ugroups = []
    if getattr(spec, 'ushape', None):
        assert sum(spec.ushape) == spec.nu and spec.uscale is None, 'ushape must add up to nu (element-wise control scales are not modelled)'
        for n_ in spec.ushape:
            u_ = st.control(n_)
            b.ugroups.append(u_)
            for j in range(n_):
                b.us.append(u_ if n_ == 1 else u_[j])
    else:
        for i in range(spec.nu):
            sc = float(spec.uscale[i]) if spec.uscale is not None else 1
            b.us.append(st.control(scale=sc))
            b.ugroups.append(b.us[-1])
    b.zs = []
    b.zgroups = []
    if getattr(spec, 'zshape', None):
        assert sum(spec.zshape) == spec.nz and spec.zscale is None
        for n_ in spec.zshape:
            zg = st.algebraic(n_)
            b.zgroups.append(zg)
            for j in range(n_):
                b.zs.append(zg if n_ == 1 else zg[j])
    else:
        for i in range(spec.nz):
            sc = float(spec.zscale[i]) if spec.zscale is not None else 1
            b.zs.append(st.algebraic(scale=sc))
            b.zgroups.append(b.zs[-1])
    b.qs = []

    def leaf(op, a):
        if op == 'x':
            return b.xel[a[0]]
        if op == 'u':
            return b.us[a[0]]
        if op == 'z':
            return b.zs[a[0]]
        if op == 'p':
            s = b.psym[a[0]]
            return s if s.numel() == 1 else s[a[1]]
        if op == 'v':
            s = b.vsym[a[0]]
            return s if s.numel() == 1 else s[a[1]]
        if op == 'q':
            return b.qs[a[0]]
        if op == 'vg':
            return b.vsym[a[0]]          # a whole declared (matrix valued) variable
        if op == 'xg':
            return b.xs[a[0]]            # a whole declared (vector/matrix valued) state inside an expression (element-wise arithmetic)
        if op == 'ug':
            return b.ugroups[a[0]]       # a whole declared (vector valued) control
        if op == 'cvec':
            return ca.MX(ca.DM([float(v_) for v_ in a[0]]))
        return {'t': st.t, 'T': st.T, 't0': st.t0, 'tf': st.tf, 'DT': st.DT, 'DTc': st.DT_control}[op]

    def wrap(op, e):
        if op == 'at_t0':
            return st.at_t0(mx(e.a[0]))
        if op == 'at_tf':
            return st.at_tf(mx(e.a[0]))
        if op == 'integral':
            return st.integral(mx(e.a[0]))
        if op == 'integral_control':
            return st.integral(mx(e.a[0]), grid='control')
        if op == 'sum':
            return st.sum(mx(e.a[0]), include_last=e.a[1])
        if op == 'wsum':
            kind, r, c, w = e.a[:4]
            Mx = ca.reshape(ca.vcat([mx(x) for x in e.a[4:]]), r, c)
            S = {'sum': lambda: st.sum(Mx), 'sum+': lambda: st.sum(Mx, include_last=True), 'at_tf': lambda: st.at_tf(Mx), 'at_t0': lambda: st.at_t0(Mx)}[kind]()
            assert S.shape == (r, c), 'matrix valued %s returned shape %s' % (kind, S.shape)
            return ca.dot(ca.reshape(ca.DM([float(v) for v in w]), r, c), S)
        if op == 'offset':
            return st.offset(mx(e.a[0]), e.a[1])
        if op == 'der':
            return st.der(mx(e.a[0]))
        if op == 'inf_der':
            return st.inf_der(mx(e.a[0]))
        raise ValueError(op)

    def mx(e):
        if isinstance(e, (list, tuple)):
            return ca.vcat([mx(x) for x in e])
        if isinstance(e, E) and e.op == 'vg':
            return b.vsym[e.a[0]]
        if isinstance(e, E) and e.op == 'xg':
            return b.xs[e.a[0]]          # a whole declared (vector/matrix valued) state
        if isinstance(e, E) and e.op == 'ug':
            return b.ugroups[e.a[0]]     # a whole declared (vector valued) control
        if isinstance(e, E) and e.op == 'zg':
            return b.zgroups[e.a[0]]     # a whole declared (vector valued) algebraic variable
        if not isinstance(e, E):
            e = E('c', Fraction(e))
        return ca.MX(ev(e, leaf, dom, wrap))

    b.mx = mx
    b.leaf = leaf
    # dynamics
    if spec.ode is not None:
        i = 0
        der_calls = []
        for gi, (r, c) in enumerate(state_groups(spec)):
            rhs = [mx(e) for e in spec.ode[i:i + r * c]]
            rhs = rhs[0] if r * c == 1 else ca.reshape(ca.vcat(rhs), r, c)
            if getattr(spec, 'ode_broadcast', None) and gi in spec.ode_broadcast:
                rhs = mx(spec.ode_broadcast[gi])        # one scalar for the whole vector-valued state
            kw = {}
            if spec.derscale is not None:
                sl = [float(v) for v in spec.derscale[i:i + r * c]]
                kw['scale'] = sl[0] if r * c == 1 else ca.reshape(ca.DM(sl), r, c)
            der_calls.append((b.xs[gi], rhs, kw))
            i += r * c
        if getattr(spec, 'der_order', None) == 'reversed':
            der_calls = der_calls[::-1]
        for x_, rhs_, kw_ in der_calls:
            st.set_der(x_, rhs_, **kw_)
    if spec.nxt is not None:
        i = 0
        calls = []
        for gi, (r, c) in enumerate(state_groups(spec)):
            rhs = [mx(e) for e in spec.nxt[i:i + r * c]]
            rhs = rhs[0] if r * c == 1 else ca.reshape(ca.vcat(rhs), r, c)
            calls.append((b.xs[gi], rhs))
            i += r * c
        order = getattr(spec, 'nxt_order', None)
        if order == 'reversed':
            calls = calls[::-1]
        if order == 'concat-reversed':
            st.set_next(ca.vcat([ca.vec(x_) for x_, _ in calls[::-1]]), ca.vcat([ca.vec(r_) for _, r_ in calls[::-1]]))
        else:
            for x_, r_ in calls:
                st.set_next(x_, r_)
    for e in spec.quads:
        q = st.state(quad=True)
        st.set_der(q, mx(e))
        b.qs.append(q)
    for i, e in enumerate(spec.alg):
        kw = {}
        if spec.algscale is not None:
            kw['scale'] = float(spec.algscale[i])
        st.add_alg(mx(e), **kw)
    # objective
    for e in spec.objective:
        st.add_objective(mx(e))
    # constraints
    b.con_mx = []
    for c in spec.cons:
        if c.op == '==':
            m = mx(c.lhs) == mx(c.rhs)
        elif c.op == '<=':
            m = mx(c.lhs) <= mx(c.rhs)
        elif c.op == '>=':
            m = mx(c.lhs) >= mx(c.rhs)
        elif c.op == '<=<=':
            m = mx(c.lhs) <= (mx(c.mid) <= mx(c.rhs))
        else:
            raise ValueError(c.op)
        kw = dict(include_first=c.include_first, include_last=c.include_last)
        if c.grid is not None:
            kw['grid'] = c.grid
        if not (isinstance(c.scale, (int, Fraction)) and c.scale == 1):
            kw['scale'] = fnum(c.scale)
        st.subject_to(m, **kw)
        b.con_mx.append(m)
    # values, guesses
    for s in spec.params:
        if s.value is not None:
            st.set_value(b.psym[s.name], param_value(s, cfg))
    for tgt, val in spec.initial:
        st.set_initial(mx(tgt), guess_value(val, b))
    if with_method:
        st.method(make_method(cfg))
    return b


def param_value(s, cfg):
    v = s.value
    if isinstance(v, (int, float, Fraction)):
        return float(v)
    if getattr(s, 'as_numpy', False):
        return np.array(fnum(v), dtype=float)
    return ca.DM(np.array(fnum(v), dtype=float))


def guess_value(val, b):
    if isinstance(val, E):
        return b.mx(val)
    if isinstance(val, (int, float, Fraction)):
        return float(val)
    if isinstance(val, (list, tuple)) and val and all(isinstance(v_, E) for v_ in val):
        return b.mx(list(val))          # a vector of expressions (one per element of a vector-valued symbol)
    return ca.DM(np.array(fnum(val), dtype=float))


class NLP:
    """What Opti would hand to nlpsol, plus named read-back expressions, as MX over (x, p)."""

    def __init__(self, b, solver=True):
        self.b = b
        ocp = b.ocp
        if solver:
            ocp.solver('ipopt')
        with quiet() as buf:
            ocp._transcribed      # what sample()/solve() do first; no NLP solve
            ocp.placeholders_transcribed
        self.noise = buf.getvalue()
        self.opti = opti = ocp._method.opti
        self.x = opti.x
        self.p = opti.p
        self.f = opti.f
        self.g = opti.g
        self.lbg = opti.lbg
        self.ubg = opti.ubg
        adv = opti.advanced
        allsyms = list(adv.symvar())
        # every symbol Opti knows, active or not (opti.x only lists *active* variables)
        self.xsyms = [s for s in allsyms if adv.get_meta(s).type == ca.OPTI_VAR]
        self.psyms = [s for s in allsyms if adv.get_meta(s).type == ca.OPTI_PAR]
        self.nx = sum(s.numel() for s in self.xsyms)
        self.np = sum(s.numel() for s in self.psyms)
        self.ng = self.g.numel()
        self.n_active = self.x.numel()

    def split(self, flat, syms):
        out = []
        i = 0
        for s in syms:
            out.append(list(flat[i:i + s.numel()]))
            i += s.numel()
        return out

    def bounds_kind(self, rng):
        """classify rows by numeric evaluation of lbg/ubg at two parameter points:
        returns list of (lb_finite, ub_finite)"""
        fb = ca.Function('b', self.psyms, [self.lbg, self.ubg])
        out = None
        for _ in range(2):
            pv = [ca.DM([rng.uniform(0.5, 1.5) for _ in range(s.numel())]).reshape(s.shape) for s in self.psyms]
            lb, ub = fb.call(pv)
            lb = np.array(lb).flatten()
            ub = np.array(ub).flatten()
            cur = [(bool(np.isfinite(a)), bool(np.isfinite(c))) for a, c in zip(lb, ub)]
            if out is None:
                out = cur
            elif out != cur:
                raise HarnessError('finiteness of bounds depends on parameter values')
        return out or []

    def x0(self):
        if not self.xsyms:
            return np.zeros(0)
        return np.array(self.opti.debug.value(ca.veccat(*self.xsyms), self.opti.initial())).flatten()

    def pval(self):
        if self.np == 0:
            return np.zeros(0)
        return np.array(self.opti.debug.value(ca.veccat(*self.psyms), self.opti.initial())).flatten()

    def numeric(self, xv, pv):
        """the real NLP functions evaluated by CasADi (replay path; no translator involved)"""
        F = ca.Function('nlp', self.xsyms + self.psyms, [self.f, self.g, self.lbg, self.ubg])
        args = [ca.DM(v).reshape(s.shape) for v, s in zip(self.split(xv, self.xsyms) + self.split(pv, self.psyms), self.xsyms + self.psyms)]
        r = F.call(args)
        return [np.array(e).flatten() for e in r]
