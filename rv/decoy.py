"""Decoy prelude: before an instance is traced, two unrelated small OCPs are declared and transcribed IN THE SAME PROCESS with
settings that are close to, but different from, the instance's own (other collocation scheme of the same degree, other N / M / grid,
other integrator).  rockit must not carry anything over between independent OCPs (module-level caches, class attributes, symbol
registries): with the prelude such a carry-over changes the instance's NLP and is seen by the ordinary comparison with the
reference.  Every instance runs in its own process, so without the prelude a process would only ever see one configuration."""
import contextlib
import io


def run_decoy(item):
    cfg = item.get('cfg') if isinstance(item, dict) else None
    try:
        from .extract import Ocp, MultipleShooting, SingleShooting, DirectCollocation, FreeTime, make_grid
        import casadi as ca
    except Exception:
        return 'unavailable'
    degree = getattr(cfg, 'degree', 2) or 2
    scheme = getattr(cfg, 'scheme', 'radau')
    N = getattr(cfg, 'N', 2) or 2
    M = getattr(cfg, 'M', 1) or 1
    other = 'legendre' if scheme == 'radau' else 'radau'
    done = []
    with contextlib.redirect_stdout(io.StringIO()), contextlib.redirect_stderr(io.StringIO()):
        for k, mk in enumerate((lambda: DirectCollocation(N=N + 1, M=M + 1, degree=degree, scheme=other),
                                lambda: MultipleShooting(N=N + 2, M=M + 2, intg='expl_euler'),
                                lambda: SingleShooting(N=N + 1, M=M, intg='rk'))):
            try:
                ocp = Ocp(t0=0.25, T=FreeTime(1.5) if k == 0 else 1.25)
                x = ocp.state(2)
                u = ocp.control()
                p = ocp.parameter()
                v = ocp.variable(grid='control')
                ocp.set_value(p, 0.75)
                ocp.set_der(x, ca.vertcat(x[1] * p + ocp.t, u + v))
                ocp.subject_to(ocp.at_t0(x) == 0)
                ocp.subject_to(-1 <= (u <= 1), scale=3)
                ocp.add_objective(ocp.integral(u ** 2) + ocp.at_tf(x[0]) + ocp.sum(v ** 2))
                ocp.set_initial(x, 0.5)
                ocp.solver('ipopt')
                ocp.method(mk())
                ocp._transcribed
                done.append(type(ocp._method).__name__)
            except Exception as e:      # a decoy that cannot be built decides nothing
                done.append('failed:%s' % type(e).__name__)
    if isinstance(item, dict) and item.get('kind') == 'signal':
        # B-spline signals: the same knot grid / degree evaluated on OTHER sub-grids before the instance's own evaluation
        order, Ns = item.get('order', 1), item.get('N', 2)
        with contextlib.redirect_stdout(io.StringIO()), contextlib.redirect_stderr(io.StringIO()):
            for k, (mk, refine) in enumerate(((lambda: MultipleShooting(N=Ns, grid=make_grid(item['grid'])), 2), (lambda: MultipleShooting(N=Ns, grid=make_grid(item['grid'])), 3),
                                              (lambda: DirectCollocation(N=Ns, degree=3, scheme='legendre', grid=make_grid(item['grid'])), 4))):
                try:
                    ocp = Ocp(t0=0.5, T=2.0)
                    x = ocp.state()
                    sig = ocp.parameter(grid='bspline', order=order)
                    ocp.set_value(sig, ca.DM([0.1 * (j + 1) for j in range(Ns + order if order > 0 else Ns)]).T)
                    ocp.set_der(x, sig)
                    ocp.subject_to(ocp.at_t0(x) == 0)
                    ocp.add_objective(ocp.at_tf(x))
                    ocp.solver('ipopt')
                    ocp.method(mk())
                    ocp.sample(sig, grid='integrator', refine=refine)
                    done.append('signal-decoy')
                except Exception as e:
                    done.append('failed:%s' % type(e).__name__)
        # ... and the same N / degree on a DIFFERENT knot grid, derivative included (nothing computed for one knot vector may serve another)
        if order >= 1:
            other_grid = ('geometric', {'growth_factor': 3, 'local': True}) if item['grid'][0] == 'uniform' else ('uniform', {})
            with contextlib.redirect_stdout(io.StringIO()), contextlib.redirect_stderr(io.StringIO()):
                try:
                    ocp = Ocp(t0=0.5, T=2.0)
                    x = ocp.state()
                    sig = ocp.parameter(grid='bspline', order=order)
                    ocp.set_value(sig, ca.DM([0.1 * (j + 1) for j in range(Ns + order)]).T)
                    ocp.set_der(x, sig)
                    dsig = ocp.der(sig)
                    ocp.subject_to(ocp.at_t0(x) == 0)
                    ocp.add_objective(ocp.at_tf(x))
                    ocp.solver('ipopt')
                    ocp.method(MultipleShooting(N=Ns, grid=make_grid(other_grid)))
                    ocp.sample(dsig, grid='control')
                    done.append('signal-decoy-other-grid')
                except Exception as e:
                    done.append('failed:%s' % type(e).__name__)
    return done
