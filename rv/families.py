"""Problem families: a fixed core that always runs + seeded random structures (VERIF_SEED)."""
import random
from fractions import Fraction as Fr

from .dsl import (Spec, Cfg, Sym, Con, E, C, X, U, Z, Pg, Vg, t, T, t0, tf, DT, DTc, nl1, nl2,
                  at_t0, at_tf, integral, integral_control, sum_, offset, nxt, prv, der, Q)

# ------------------------------------------------------------------------------------------
# grids
# ------------------------------------------------------------------------------------------
G_UNI = ('uniform', {})
G_UNI_LT0 = ('uniform', {'localize_t0': True})
G_UNI_LT = ('uniform', {'localize_T': True})
G_UNI_LTT = ('uniform', {'localize_T': True, 'localize_t0': True})
G_GEO_LOC = ('geometric', {'growth_factor': 2, 'local': True})
G_GEO_GLOB = ('geometric', {'growth_factor': 3, 'local': False})
G_GEO_LOC_LT = ('geometric', {'growth_factor': 2, 'local': True, 'localize_T': True})
G_FREE = ('free', {})


def G_FUN(N):
    """a non-uniform rational user grid"""
    pts = [Fr(k * k + k, N * N + N) for k in range(N + 1)]
    return ('function', {'points': pts})


def grid_is_rational(g):
    return not (g[0] == 'geometric' and not g[1].get('local'))


def grid_free_vars(g):
    return g[0] == 'free' or g[1].get('localize_T') or g[1].get('localize_t0')


# ------------------------------------------------------------------------------------------
# random expressions
# ------------------------------------------------------------------------------------------
def rexpr(rng, leaves, depth=2, nl=True):
    """random expression over `leaves` (list of E)"""
    if depth == 0 or rng.random() < 0.25:
        l = rng.choice(leaves)
        if rng.random() < 0.3:
            return l * rng.choice([2, 3, Fr(1, 2), Fr(3, 4), -1])
        return l
    r = rng.random()
    a = rexpr(rng, leaves, depth - 1, nl)
    b = rexpr(rng, leaves, depth - 1, nl)
    if r < 0.3:
        return a + b
    if r < 0.45:
        return a - b
    if r < 0.7:
        return a * b
    if r < 0.85 and nl:
        return nl1(a)
    if nl:
        return nl2(a, b)
    return a * b + a


# ------------------------------------------------------------------------------------------
# shooting ODE models
# ------------------------------------------------------------------------------------------
def ode_core():
    """hand-written models exercising: time dependence, global / per-interval / control+ parameters
    and variables, vector states"""
    out = []
    out.append(Spec(nx=2, nu=1,
                    ode=[nl1(X(1)) * U(0) + t * X(0), nl2(X(0), Pg('a')) - X(1) * Pg('pc') + t * t],
                    params=[Sym('a', value=2), Sym('pc', 'control', value=3)],
                    note='time-dep, global + per-interval parameter'))
    out.append(Spec(nx=2, nu=1,
                    ode=[X(0) * Vg('w') + nl1(t * U(0)) + Vg('vc'), nl2(X(1), t) * Vg('vp') - X(0) * Pg('pp')],
                    vars=[Sym('w'), Sym('vc', 'control'), Sym('vp', 'control+')],
                    params=[Sym('pp', 'control+', value=1)],
                    note='global / per-interval / control+ variables, control+ parameter'))
    out.append(Spec(nx=3, nu=1, xshape=[(2, 1), (1, 1)],
                    ode=[X(1) * t, nl1(X(0)) + U(0) * X(2), X(0) * X(1) - t * Pg('m', 1) + Pg('m', 2)],
                    params=[Sym('m', rows=2, cols=2, value=[[1, 2], [3, 4]])],
                    note='vector state, matrix parameter'))
    out.append(Spec(nx=1, nu=0, ode=[nl2(X(0), t) + t0 * 0 + 1],
                    note='no control, scalar'))
    return out


def diffeq_core():
    out = []
    out.append(Spec(nx=2, nu=1,
                    nxt=[X(0) + DT * (nl1(X(1)) + U(0) * t), X(1) * Pg('pc') + DTc * X(0) + DT * DT],
                    params=[Sym('pc', 'control', value=2)],
                    note='discrete model with DT, DT_control, t, per-interval parameter'))
    out.append(Spec(nx=1, nu=1, nxt=[nl2(X(0), U(0)) + Vg('vc') * DTc],
                    vars=[Sym('vc', 'control')], note='discrete with per-interval variable'))
    return out


HORIZONS = [
    (('num', Fr(0)), ('num', Fr(1))),
    (('num', Fr(1, 2)), ('num', Fr(2))),
    (('num', Fr(0)), ('free', Fr(2))),
    (('free', Fr(1)), ('num', Fr(1))),
    (('free', Fr(1, 2)), ('free', Fr(3))),
    (('param', 'pt0'), ('param', 'pT')),
]


def with_horizon(spec, h):
    import copy
    s = copy.deepcopy(spec)
    s.t0, s.T = h
    for k in (s.t0, s.T):
        if k[0] == 'param' and not any(p.name == k[1] for p in s.params):
            s.params = list(s.params) + [Sym(k[1], value=Fr(3, 2))]
    return s


def horizon_symbolic(h):
    return h[1][0] != 'num'


def pdeg(e):
    """polynomial degree of an expression in its leaves, uninterpreted markers counted as atoms"""
    if not isinstance(e, E) or e.op == 'c':
        return 0
    if e.op in ('nl1', 'nl2'):
        return 1
    if e.op in ('+', '-'):
        return max(pdeg(e.a[0]), pdeg(e.a[1]))
    if e.op == '*':
        return pdeg(e.a[0]) + pdeg(e.a[1])
    if e.op == '/':
        return pdeg(e.a[0]) + pdeg(e.a[1])
    if e.op == 'neg':
        return pdeg(e.a[0])
    if e.op == 'pow':
        return pdeg(e.a[0]) * e.a[1]
    return 1


def rexpr_bounded(rng, leaves, depth, maxdeg):
    """random expression whose polynomial part stays below maxdeg (RK4 composes it 4*N*M times: z3's
    normaliser does not finish on high-degree polynomial compositions; markers are unaffected)"""
    for _ in range(40):
        e = rexpr(rng, leaves, depth)
        if pdeg(e) <= maxdeg:
            return e
    return rexpr(rng, leaves, 1)


def random_ode(rng, nx=None, nu=None):
    nx = nx or rng.choice([1, 2, 2, 3])
    nu = rng.choice([0, 1, 1, 2]) if nu is None else nu
    params = []
    vars_ = []
    leaves = [X(i) for i in range(nx)] + [U(i) for i in range(nu)] + [t, t]
    if rng.random() < 0.7:
        params.append(Sym('a', value=Fr(3, 2)))
        leaves.append(Pg('a'))
    if rng.random() < 0.6:
        params.append(Sym('pc', 'control', value=2))
        leaves.append(Pg('pc'))
    if rng.random() < 0.3:
        params.append(Sym('pp', 'control+', value=Fr(1, 2)))
        leaves.append(Pg('pp'))
    if rng.random() < 0.4:
        vars_.append(Sym('w'))
        leaves.append(Vg('w'))
    if rng.random() < 0.4:
        vars_.append(Sym('vc', 'control'))
        leaves.append(Vg('vc'))
    if rng.random() < 0.25:
        vars_.append(Sym('vp', 'control+'))
        leaves.append(Vg('vp'))
    ode = [rexpr_bounded(rng, leaves, rng.choice([1, 2, 2, 3]), 2) for _ in range(nx)]
    return Spec(nx=nx, nu=nu, ode=ode, params=params, vars=vars_, note='random ode')


def random_diffeq(rng):
    s = random_ode(rng)
    leaves = [X(i) for i in range(s.nx)] + [U(i) for i in range(s.nu)] + [t, DT, DTc]
    leaves += [Pg(p.name) for p in s.params] + [Vg(v.name) for v in s.vars]
    s.nxt = [rexpr_bounded(rng, leaves, 2, 2) for _ in range(s.nx)]
    s.ode = None
    s.note = 'random diffeq'
    return s


# ------------------------------------------------------------------------------------------
# DAE models (collocation)
# ------------------------------------------------------------------------------------------
def dae_core():
    out = []
    out.append(Spec(nx=2, nu=1, nz=1,
                    ode=[Z(0) * X(1) + t, nl1(X(0)) + U(0) * Pg('pc')],
                    alg=[Z(0) - nl2(X(0), t) * Pg('a') + X(1)],
                    params=[Sym('a', value=2), Sym('pc', 'control', value=3)],
                    note='semi-explicit DAE, time-dep, parameters'))
    out.append(Spec(nx=1, nu=1, nz=2,
                    ode=[Z(0) + Z(1) * U(0)],
                    alg=[Z(0) * Z(0) - X(0) + t, nl1(Z(1)) - Vg('vc') * X(0)],
                    vars=[Sym('vc', 'control')],
                    note='two algebraic variables, per-interval variable'))
    return out


def rational_tables(degree, scheme):
    return (scheme == 'radau' and degree <= 2) or (scheme == 'legendre' and degree <= 1)


def random_dae(rng):
    s = random_ode(rng, nu=rng.choice([0, 1]))
    nz = rng.choice([1, 1, 2])
    lv = [X(i) for i in range(s.nx)] + [U(i) for i in range(s.nu)] + [t] + [Z(i) for i in range(nz)]
    lv += [Pg(p.name) for p in s.params] + [Vg(v.name) for v in s.vars]
    s.nz = nz
    s.ode = [rexpr(rng, lv, depth=2) for _ in range(s.nx)]
    s.alg = [Z(i) - rexpr(rng, lv, depth=2) for i in range(nz)]
    s.note = 'random dae'
    return s
