"""python -m rv check Cxx --tier quick|thorough  |  python -m rv replay <path>  |  python -m rv one Cxx <idx>"""
import argparse
import base64
import importlib
import json
import os
import pickle
import sys
import time


def main():
    ap = argparse.ArgumentParser()
    sub = ap.add_subparsers(dest='cmd', required=True)
    c = sub.add_parser('check')
    c.add_argument('prop')
    c.add_argument('--tier', default=os.environ.get('VERIF_TIER', 'quick'))
    c.add_argument('--only', default=None, help='comma separated instance indices (debug)')
    r = sub.add_parser('replay')
    r.add_argument('path')
    o = sub.add_parser('one')
    o.add_argument('prop')
    o.add_argument('idx', type=int)
    o.add_argument('--tier', default='quick')
    a = ap.parse_args()
    seed = int(os.environ.get('VERIF_SEED', '0'))
    from rv import runner
    if a.cmd == 'check':
        t0 = time.time()
        prop = a.prop.upper()
        mod = importlib.import_module('rv.props.' + prop.lower())
        items = mod.instances(a.tier, seed)
        for it in items:
            it.setdefault('seed', seed)
        if a.only:
            idx = [int(x) for x in a.only.split(',')]
            items = [items[i] for i in idx]
        results = runner.run_items(prop.lower(), items, timeout=getattr(mod, 'TIMEOUT', {}).get(a.tier, 240))
        byid = {it['id']: it for it in items}
        for res in results:
            for v in res.get('violations', []):
                v['item_b64'] = base64.b64encode(pickle.dumps(byid[res['id']])).decode()
        meta = mod.META(a.tier) if callable(mod.META) else mod.META
        code = runner.finish(prop, a.tier, seed, mod.LEVEL, results, meta, t0)
        sys.exit(code)
    if a.cmd == 'one':
        mod = importlib.import_module('rv.props.' + a.prop.lower())
        items = mod.instances(a.tier, seed)
        it = items[a.idx]
        it.setdefault('seed', seed)
        res = runner.run_one(mod, a.prop.lower(), it)
        res.pop('sample', None)
        print(json.dumps(res, indent=1, default=str)[:6000])
        return
    if a.cmd == 'replay':
        v = json.load(open(a.path))
        item = pickle.loads(base64.b64decode(v['item_b64']))
        prop = v['property']
        mod = importlib.import_module('rv.props.' + prop.lower())
        out = sys.stdout
        sys.stdout = open(os.devnull, 'w')
        res = runner.run_one(mod, prop.lower(), item)
        sys.stdout = out
        hits = [w for w in res.get('violations', []) if w.get('key') == v.get('key')]
        if hits:
            print('REPRODUCED property=%s key=%s' % (prop, v.get('key')))
            for w in hits[:3]:
                print('  ', w.get('label'), '::', str(w.get('detail'))[:500])
                if w.get('point'):
                    print('   at decision vector x=%s p=%s' % (w['point']['x'], w['point']['p']))
            sys.exit(1)
        print('not reproduced on the current tree')
        sys.exit(0)


if __name__ == '__main__':
    main()
