"""Problem description: one expression AST, read three ways (CasADi MX to *call rockit*, SMT terms
to *state the spec*, floats to *replay*).  Pure data (picklable, JSON-able)."""
from fractions import Fraction
from dataclasses import dataclass, field, asdict
from typing import Any


class E:
    """expression node; op in LEAVES | ARITH | WRAP"""
    __slots__ = ('op', 'a')

    def __init__(self, op, *a):
        self.op = op
        self.a = a

    def __getstate__(self):
        return (self.op, self.a)

    def __setstate__(self, s):
        self.op, self.a = s

    def _w(o):
        return o if isinstance(o, E) else E('c', Fraction(o))

    def __add__(s, o): return E('+', s, E._w(o))
    def __radd__(s, o): return E('+', E._w(o), s)
    def __sub__(s, o): return E('-', s, E._w(o))
    def __rsub__(s, o): return E('-', E._w(o), s)
    def __mul__(s, o): return E('*', s, E._w(o))
    def __rmul__(s, o): return E('*', E._w(o), s)
    def __truediv__(s, o): return E('/', s, E._w(o))
    def __rtruediv__(s, o): return E('/', E._w(o), s)
    def __neg__(s): return E('neg', s)
    def __pow__(s, n): return E('pow', s, int(n))

    def __repr__(self):
        return show(self)


def C(v): return E('c', Fraction(v))
def X(i): return E('x', i)
def U(i): return E('u', i)
def Z(i): return E('z', i)
def Pg(name, i=0): return E('p', name, i)       # any parameter by name (element i, column-major)
def Vg(name, i=0): return E('v', name, i)       # any variable by name
t = E('t')
T = E('T')
t0 = E('t0')
tf = E('tf')
DT = E('DT')
DTc = E('DTc')
def nl1(a): return E('nl1', E._w(a))
def nl2(a, b): return E('nl2', E._w(a), E._w(b))
def at_t0(e): return E('at_t0', E._w(e))
def at_tf(e): return E('at_tf', E._w(e))
def integral(e): return E('integral', E._w(e))
def integral_control(e): return E('integral_control', E._w(e))
def sum_(e, include_last=False): return E('sum', E._w(e), bool(include_last))
def wsum(kind, rows, cols, weights, comps):
    """sum_ij w_ij * K(M)_ij for a rows x cols matrix valued expression M (components column-major) and K = ocp.sum / ocp.sum(include_last) /
    at_tf / at_t0 applied to the WHOLE matrix in one call ('sum', 'sum+', 'at_tf', 'at_t0')"""
    assert len(comps) == rows * cols == len(weights)
    return E('wsum', kind, int(rows), int(cols), tuple(Fraction(w) for w in weights), *[E._w(c) for c in comps])
def offset(e, n): return E('offset', E._w(e), int(n))
def nxt(e): return offset(e, 1)
def prv(e): return offset(e, -1)
def der(e): return E('der', E._w(e))
def inf_der(e): return E('inf_der', E._w(e))
def Q(i): return E('q', i)            # i-th declared quadrature state
PINF = E('inf', 1)                   # +infinity as a bound component of a (vector valued) two-sided constraint
NINF = E('inf', -1)


LEAVES = {'c', 'x', 'u', 'z', 'p', 'v', 't', 'T', 't0', 'tf', 'DT', 'DTc', 'q', 'inf', 'xg', 'vg', 'ug', 'cvec'}     # 'cvec': a constant column vector handed over as ONE numeric matrix (DM); 'xg' / 'vg' / 'ug': a whole (vector / matrix valued) declared state / variable / control; MX reading only
WRAP = {'at_t0', 'at_tf', 'integral', 'integral_control', 'sum', 'wsum', 'offset', 'der', 'inf_der'}


def show(e):
    if not isinstance(e, E):
        return repr(e)
    if e.op == 'c':
        return str(e.a[0])
    if e.op == 'inf':
        return 'inf' if e.a[0] > 0 else '-inf'
    if e.op in ('x', 'u', 'z', 'q', 'xg', 'ug'):
        return '%s%d' % (e.op, e.a[0])
    if e.op == 'vg':
        return 'v[%s]' % e.a[0]
    if e.op in ('p', 'v'):
        return '%s[%s,%d]' % (e.op, e.a[0], e.a[1])
    if e.op in ('t', 'T', 't0', 'tf', 'DT', 'DTc'):
        return e.op
    if e.op in '+-*/':
        return '(%s %s %s)' % (show(e.a[0]), e.op, show(e.a[1]))
    if e.op == 'neg':
        return '-%s' % show(e.a[0])
    if e.op == 'pow':
        return '%s^%d' % (show(e.a[0]), e.a[1])
    if e.op == 'wsum':
        return 'w.%s(%dx%d[%s])' % (e.a[0], e.a[1], e.a[2], ', '.join(show(x) for x in e.a[4:]))
    return '%s(%s)' % (e.op, ', '.join(show(x) for x in e.a))


def ev(e, leaf, dom, wrap=None):
    """evaluate AST.  leaf(op, args)->value ; dom: const/nl1/nl2/div ; wrap(op, node)->value"""
    op = e.op
    if op == 'c':
        return dom.const(e.a[0])
    if op == 'inf':
        return dom.inf(e.a[0])       # only the MX reading has infinite bounds; reference semantics never evaluates them
    if op in LEAVES:
        return leaf(op, e.a)
    if op in WRAP:
        if wrap is None:
            raise ValueError('wrapper %s not allowed here' % op)
        return wrap(op, e)
    if op == 'neg':
        return -ev(e.a[0], leaf, dom, wrap)
    if op == 'pow':
        b = ev(e.a[0], leaf, dom, wrap)
        r = dom.const(1)
        for _ in range(e.a[1]):
            r = r * b
        return r
    if op == 'nl1':
        return dom.nl1(ev(e.a[0], leaf, dom, wrap))
    if op == 'nl2':
        return dom.nl2(ev(e.a[0], leaf, dom, wrap), ev(e.a[1], leaf, dom, wrap))
    a = ev(e.a[0], leaf, dom, wrap)
    b = ev(e.a[1], leaf, dom, wrap)
    if op == '+':
        return a + b
    if op == '-':
        return a - b
    if op == '*':
        return a * b
    if op == '/':
        return dom.div(a, b)
    raise ValueError(op)


def leaves(e, acc=None):
    """set of (op, args) leaves, descending through wrappers"""
    if acc is None:
        acc = set()
    if not isinstance(e, E):
        return acc
    if e.op in LEAVES:
        if e.op not in ('c', 'inf'):
            acc.add((e.op,) + tuple(e.a))
        return acc
    for x in e.a:
        leaves(x, acc)
    return acc


def has_wrap(e, ops=WRAP):
    if not isinstance(e, E):
        return False
    if e.op in ops:
        return True
    return any(has_wrap(x, ops) for x in e.a)


# ------------------------------------------------------------------------------------------
@dataclass
class Sym:
    """parameter or variable declaration"""
    name: str
    grid: str = ''          # '', 'control', 'control+', ('states' for variables)
    rows: int = 1
    cols: int = 1
    value: Any = None       # parameters: numeric value (scalar or list of columns); None = leave symbolic only
    scale: Any = 1
    as_numpy: bool = False  # hand the value to set_value as a numpy array (2-D for matrices) instead of a casadi.DM

    @property
    def n(self):
        return self.rows * self.cols


@dataclass
class Con:
    """constraint  lhs (op) rhs  or lb <= mid <= ub (op='<=<=')"""
    op: str                 # '==', '<=', '>=', '<=<='
    lhs: Any
    rhs: Any
    mid: Any = None
    grid: Any = None        # None (auto), 'control', 'integrator', 'integrator_roots', 'inf'
    include_first: bool = True
    include_last: bool = True
    scale: Any = 1

    def __post_init__(self):
        for k in ('lhs', 'rhs', 'mid'):
            v = getattr(self, k)
            if isinstance(v, (list, tuple)):
                # vector-valued side: list of components
                setattr(self, k, [x if isinstance(x, E) else E('c', Fraction(x)) for x in v])
            elif v is not None and not isinstance(v, E):
                setattr(self, k, E('c', Fraction(v)))

    def components(self):
        """scalar constraints (lhs, rhs, mid) per vector component (scalars are broadcast)"""
        sides = [self.lhs, self.rhs, self.mid]
        n = max([len(s) for s in sides if isinstance(s, list)] or [1])
        out = []
        for i in range(n):
            out.append(tuple((s[i] if isinstance(s, list) else s) for s in sides))
        return out

    def is_vector(self):
        return any(isinstance(s, list) for s in (self.lhs, self.rhs, self.mid))


@dataclass
class Spec:
    nx: int = 1
    nu: int = 0
    nz: int = 0
    ode: Any = None         # list of nx E  (None => discrete)
    nxt: Any = None         # list of nx E  (set_next)
    der_order: Any = None   # how set_der is called: None (declaration order) or 'reversed' (one call per state, reverse order)
    nxt_order: Any = None   # how set_next is called: None (one call per state, declaration order), 'reversed' (one call per state, reverse order), 'concat-reversed' (ONE call on vertcat of the states in reverse order)
    alg: Any = field(default_factory=list)       # list of nz E
    params: Any = field(default_factory=list)    # list of Sym
    vars: Any = field(default_factory=list)      # list of Sym
    quads: Any = field(default_factory=list)     # list of E: declared quadrature states' derivatives
    objective: Any = field(default_factory=list)  # list of E (terms; wrappers allowed)
    cons: Any = field(default_factory=list)      # list of Con
    t0: Any = ('num', Fraction(0))               # ('num', v) | ('free', guess) | ('param', name)
    T: Any = ('num', Fraction(1))
    xscale: Any = None      # list of nx scales
    uscale: Any = None
    zscale: Any = None
    derscale: Any = None
    algscale: Any = None
    xshape: Any = None      # list of (rows, cols) partitioning nx into declared states; None => scalars
    ode_broadcast: Any = None   # {state group index: E}: that (vector valued) state is given ONE scalar right-hand side (repeated); spec.ode lists it per element
    ushape: Any = None      # list of sizes partitioning nu into declared (vector valued) controls; None => scalars
    zshape: Any = None      # list of sizes partitioning nz into declared (vector valued) algebraic variables; None => scalars
    shared_freetime: bool = False   # t0 and T (both free) are declared through ONE FreeTime object (same guess)
    initial: Any = field(default_factory=list)   # list of (target E leaf, value) for set_initial
    note: str = ''


@dataclass
class Cfg:
    method: str = 'MS'      # 'MS', 'SS', 'DC'
    N: int = 2
    M: int = 1
    intg: str = 'rk'
    grid: Any = ('uniform', {})     # (class key, kwargs)
    degree: int = 4
    scheme: str = 'radau'

    def tag(self):
        g = self.grid[0] + (str(sorted(self.grid[1].items())) if self.grid[1] else '')
        s = '%s N=%d M=%d' % (self.method, self.N, self.M)
        if self.method == 'DC':
            s += ' %s%d' % (self.scheme, self.degree)
        else:
            s += ' ' + self.intg
        return s + ' ' + g
