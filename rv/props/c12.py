"""C12 Stages compose without interference and clones equal their template."""
import copy
import random
from fractions import Fraction as Fr

import casadi as ca

from .. import families as fam
from ..dsl import (Cfg, Spec, Sym, Con, E, X, U, Pg, Vg, t, T, t0, tf, nl1, nl2, at_t0, at_tf, integral, sum_, C)
from ..extract import declare, Built, quiet, Ocp, FreeTime, make_method
from ..instance import Inst
from ..match import Checker, close
from ..sx2smt import emb, RZ
from ..ref.semantics import Ref
from ..ref import shooting as rsh, collocation as rco
from .common import impl_atoms, describe_violation, result, compare_nlps, bind_positional

PROP = 'C12'
LEVEL = 'translation_validation'
META = {
    'rule': 'instance = (list of stages: model, method, N, M, grid, horizon kinds; direct or cloned from a template with overridden t0/T; coupling pattern; parent variable/objective). '
            'The complete row multiset of the multi-stage NLP must be in bijection with the union over stages of that stage\'s reference rows (built from the stage\'s own named quantities) '
            'plus the reference coupling rows; objective = sum of stage objectives + parent terms; named variables of different stages are disjoint; '
            'clone-based OCP vs directly declared OCP: two real transcriptions, equal rows/objective (z3); the template\'s declared content is unchanged.  distinct by (shape,label)',
    'functions': ['rockit/stage.py:stage/clone/__deepcopy__/_transcribe_recurse/_placeholders_transcribe_recurse/iter_stages', 'rockit/ocp.py:_transcribe',
                  'rockit/direct_method.py:DirectMethod.transcribe (parent level constraints/objective/variables), eval_top', 'rockit/sampling_method.py:eval (master substitution)'],
    'bounds': '2-3 stages, mixed MS/SS/DC and grids, N<=3, M<=2, free and fixed stage horizons, integrals with explicit time, per-stage parameters, parent variable + objective, 1-2 clones; one stage nested in another stage; continuity declared on the parent or on the later stage itself',
    'outside': 'nested sub-stages deeper than one level; sol(stage) numeric read-back (solver output); IEEE rounding',
    'assumptions': ['reals for floats', 'named quantities of each stage are obtained through stage.sample/value'],
}


def stage_model(i):
    if i % 2 == 0:
        s = Spec(nx=2, nu=1, ode=[nl1(X(1)) * U(0) + t * X(0), X(0) - X(1) * Pg('a') + t],
                 params=[Sym('a', value=Fr(3, 2))])
        s.objective = [integral(X(0) * X(0) + t * U(0)), at_tf(X(1)) * T + Pg('a') * at_t0(X(1))]      # (the stage's own parameter inside its objective: clones of one template share the symbol, not the value)
        s.cons = [Con('<=', X(0), 3 + t), Con('<=<=', -1, 1, mid=U(0)), Con('<=', at_tf(X(0)) - at_t0(X(0)), tf)]
        s.initial = [(X(0), Fr(2)), (U(0), t * Fr(1, 2))]
    else:
        s = Spec(nx=2, nu=1, ode=[X(1) + Vg('vc'), nl2(X(0), U(0)) * t],
                 vars=[Sym('vc', 'control')])
        s.objective = [sum_(U(0) * U(0) + Vg('vc') * Vg('vc')), t0 + at_t0(X(0))]
        s.cons = [Con('>=', X(1), -2), Con('<=', Vg('vc'), X(0) + 5)]
        s.initial = [(X(1), Fr(-1)), (Vg('vc'), Fr(3, 4))]
    return s


def build(desc, poly=False):
    """desc: dict(stages=[dict(spec,cfg,t0,T,clone_of)], coupling=[...], parent=[...]) -> Built (master) with .stage_builts"""
    ocp = Ocp()
    master = Built()
    master.ocp = master.stage = ocp
    master.stage_builts = []
    templates = {}
    w = ocp.variable()
    master.w = w
    # the parent's own parameters (a 2-vector and a scalar) and a second variable: used by the 'par' terms
    master.pa = ocp.parameter(2)
    master.pb = ocp.parameter()
    master.w2 = ocp.variable()
    ocp.set_value(master.pa, ca.DM([1.5, -0.75]))
    ocp.set_value(master.pb, 2.25)

    def hv(k):
        if k[0] == 'param':
            return 1.0            # placeholder number: declare() assigns the parameter through set_T / set_t0
        return FreeTime(float(k[1])) if k[0] == 'free' else float(k[1])
    from rockit import Stage
    for si, sd in enumerate(desc['stages']):
        spec = copy.deepcopy(sd['spec'])
        spec.t0, spec.T = sd['t0'], sd['T']
        if sd.get('pvals') and sd.get('clone_of') is None:
            for p_ in spec.params:
                if p_.name in sd['pvals']:
                    p_.value = sd['pvals'][p_.name]
        if sd.get('clone_of') is not None:
            key = sd['clone_of']
            if key not in templates:
                th = sd.get('tpl_h') or (('num', Fr(0)), ('num', Fr(1)))
                tpl = Stage(t0=hv(th[0]), T=hv(th[1]))
                bt = declare(sd['spec'], sd['cfg'], poly=poly, ocp=None, stage=tpl)
                templates[key] = (tpl, bt)
            tpl, bt = templates[key]
            # only the listed horizon entries are overridden; the others are inherited from the template (sd['t0'], sd['T'] hold the effective values)
            okw = {k_: hv(sd[k_]) for k_ in sd.get('override', ('t0', 'T'))}
            st = ocp.stage(tpl, **okw)
            b = copy.copy(bt)
            b.spec, b.cfg = spec, sd['cfg']
            b.ocp, b.stage = ocp, st
            for nm, val in (sd.get('pvals') or {}).items():
                st.set_value(b.psym[nm], float(val))          # value given on the clone only
        else:
            # 'nested_in': the stage is created ON an earlier stage (a grandchild of the Ocp) instead of on the Ocp itself
            owner = master.stage_builts[sd['nested_in']].stage if sd.get('nested_in') is not None else ocp
            st = owner.stage(t0=hv(sd['t0']), T=hv(sd['T']))
            b = declare(spec, sd['cfg'], poly=poly, ocp=ocp, stage=st)
            b.spec = spec
        if sd.get('post_der_scale') is not None:
            # AFTER the stage exists: its dynamics are given again, now with a derivative scale (its siblings keep theirs)
            st.set_der(b.xs[0], b.xel[1] * 2 - b.us[0], scale=float(sd['post_der_scale']))      # (time-invariant: the template's symbols serve every stage made from it)
        master.stage_builts.append(b)
    B = master.stage_builts
    for c in desc['coupling']:
        if c[0] in ('cont', 'cont@stage'):
            i, j = c[1], c[2]
            # 'cont@stage': the continuity condition is declared on the later STAGE (it mentions the end of its sibling only), not on the parent
            where = B[j].stage if c[0] == 'cont@stage' else ocp
            for k in range(B[i].spec.nx):
                where.subject_to(B[j].stage.at_t0(B[j].xel[k]) == B[i].stage.at_tf(B[i].xel[k]))
        elif c[0] == 'time':
            i, j = c[1], c[2]
            ocp.subject_to(B[j].stage.t0 == B[i].stage.tf)
        elif c[0] == 'wge':
            ocp.subject_to(w >= B[c[1]].stage.at_tf(B[c[1]].xel[0]))
        elif c[0] == 'wge8':
            # the parent's own constraint declared with scale=8: residual and bounds divided by 8
            ocp.subject_to(w >= B[c[1]].stage.at_tf(B[c[1]].xel[0]), scale=8)
    for p in desc['parent']:
        if p[0] == 'w2':
            ocp.add_objective(w * w)
        elif p[0] == 'T':
            ocp.add_objective(B[p[1]].stage.T)
        elif p[0] == 'par':
            # parent-level constraint and objective over the parent's own variables AND parameters
            ocp.subject_to(master.w2 >= master.pa[1] * w + master.pb)
            ocp.add_objective(master.pa[0] * master.w2 * master.w2 + master.pb * w)
    master.templates = templates
    master.desc = desc
    return master


def instances(tier, seed):
    rng = random.Random(seed + 12)
    items = []

    def add(**kw):
        items.append(dict(id='%s#%d' % (PROP, len(items)), **kw))
    cfgs = [Cfg('MS', N=2, M=2, intg='rk', grid=fam.G_UNI), Cfg('DC', N=2, M=1, degree=2, scheme='radau', grid=fam.G_GEO_LOC),
            Cfg('SS', N=3, M=1, intg='expl_euler', grid=fam.G_UNI), Cfg('MS', N=3, M=1, intg='rk', grid=fam.G_UNI_LT),
            Cfg('DC', N=1, M=2, degree=1, scheme='legendre', grid=fam.G_UNI)]
    hz = [(('num', Fr(0)), ('num', Fr(1))), (('free', Fr(1)), ('free', Fr(2))), (('num', Fr(1, 2)), ('free', Fr(3, 2))), (('free', Fr(2)), ('num', Fr(2)))]
    n = 0
    reps = 2 if tier == 'quick' else 8
    for rep in range(reps):
        for ns in (2, 3):
            stages = []
            for i in range(ns):
                h = hz[(n + i) % len(hz)] if i > 0 else hz[(n) % 2 * 2]
                stages.append(dict(spec=stage_model(i + rep), cfg=cfgs[(n + i) % len(cfgs)], t0=h[0], T=h[1], clone_of=None))
            coupling = [('cont', i, i + 1) for i in range(ns - 1)]
            coupling += [('time', i, i + 1) for i in range(ns - 1) if stages[i + 1]['t0'][0] == 'free']
            coupling += [('wge', ns - 1)]
            add(kind='direct', desc=dict(stages=stages, coupling=coupling, parent=[('w2',), ('T', 0)] + ([('par',)] if n % 2 == 0 else [])))
            n += 1
    # clones
    for rep in range(reps):
        for nclones in (1, 2):
            tplspec = stage_model(rep)
            cfg = cfgs[(n) % len(cfgs)]
            stages = []
            for i in range(nclones):
                h = hz[(n + i + 1) % len(hz)]
                pv = {p_.name: Fr(5 + 2 * i, 4) for p_ in tplspec.params if p_.grid == ''}      # every clone gets its own parameter value
                stages.append(dict(spec=tplspec, cfg=cfg, t0=h[0], T=h[1], clone_of='tpl', pvals=pv))
            stages.append(dict(spec=stage_model(rep + 1), cfg=cfgs[(n + 2) % len(cfgs)], t0=hz[0][0], T=hz[0][1], clone_of=None))
            coupling = [('cont', i, i + 1) for i in range(len(stages) - 1)] + [('wge', 0)]
            add(kind='clone', desc=dict(stages=stages, coupling=coupling, parent=[('w2',)]))
            n += 1
    # a stage created ON another stage (grandchild of the Ocp); the continuity condition declared on the later stage itself
    for ci_ in (0, 1):
        add(kind='direct', desc=dict(stages=[dict(spec=stage_model(ci_), cfg=cfgs[ci_], t0=hz[0][0], T=hz[0][1], clone_of=None),
                                             dict(spec=stage_model(ci_ + 1), cfg=cfgs[(ci_ + 1) % len(cfgs)], t0=hz[2][0], T=hz[2][1], clone_of=None, nested_in=0)],
                             coupling=[('cont', 0, 1), ('wge', 1)], parent=[('w2',), ('par',)]))
        add(kind='direct', desc=dict(stages=[dict(spec=stage_model(ci_), cfg=cfgs[ci_], t0=hz[0][0], T=hz[0][1], clone_of=None),
                                             dict(spec=stage_model(ci_ + 1), cfg=cfgs[(ci_ + 2) % len(cfgs)], t0=hz[2][0], T=hz[2][1], clone_of=None)],
                             coupling=[('cont@stage', 0, 1), ('wge', 0)], parent=[('w2',)]))
    # a template whose constraints shift time-dependent expressions by whole intervals (the shifted expression refers to the template's time)
    from ..dsl import offset
    tpl_off = stage_model(0)
    tpl_off.cons = list(tpl_off.cons) + [Con('<=', offset(X(0) * t, 1) - X(0), 4), Con('>=', offset(X(1) + t, -1), X(0) - 6),
                                       Con('<=', X(1) * t, 6, include_first=False), Con('>=', X(0) + X(1), -8, include_last=False)]      # (placement flags travel with the clone)
    add(kind='clone', desc=dict(stages=[dict(spec=tpl_off, cfg=cfgs[0], t0=hz[2][0], T=hz[2][1], clone_of='tpl', pvals={}),
                                        dict(spec=stage_model(1), cfg=cfgs[1], t0=hz[0][0], T=hz[0][1], clone_of=None)], coupling=[('cont', 0, 1), ('wge8', 0)], parent=[('w2',)]))
    # a template with an explicitly declared quadrature state and DT / DT_control in its constraints
    from ..dsl import Q, DT, DTc
    tpl_q = stage_model(0)
    tpl_q.quads = [X(0) * X(0) + t]
    tpl_q.objective = list(tpl_q.objective) + [at_tf(Q(0))]
    tpl_q.cons = list(tpl_q.cons) + [Con('<=', X(1) * DTc, 5), Con('>=', X(0) * DT, -7, grid='integrator'),
                                   Con('<=', X(1) - t, 9, grid='integrator', include_first=False, include_last=False)]
    add(kind='clone', desc=dict(stages=[dict(spec=tpl_q, cfg=cfgs[0], t0=hz[0][0], T=hz[0][1], clone_of='tpl', pvals={}),
                                        dict(spec=stage_model(1), cfg=cfgs[3], t0=hz[2][0], T=hz[2][1], clone_of=None)], coupling=[('cont', 0, 1), ('wge', 0)], parent=[('w2',)]))
    # a template with grid='inf' constraints, one of them on the derivative of a state (inf_der)
    from ..dsl import inf_der
    tpl_inf = stage_model(0)
    tpl_inf.cons = list(tpl_inf.cons) + [Con('<=', X(0) + X(1), 9, grid='inf'), Con('<=<=', -6, 6, mid=inf_der(X(1)), grid='inf')]
    for ci_ in (0, 1):
        add(kind='clone-vs-direct', desc=dict(stages=[dict(spec=tpl_inf, cfg=cfgs[[0, 3][ci_]], t0=hz[[0, 2][ci_]][0], T=hz[[0, 2][ci_]][1], clone_of='tpl', pvals={}),
                                                      dict(spec=stage_model(1), cfg=cfgs[1], t0=hz[2][0], T=hz[2][1], clone_of=None)], coupling=[('cont', 0, 1), ('wge', 0)], parent=[('w2',)]))
    # two stages from one template under DirectCollocation; AFTER cloning, one of them gets set_der(..., scale=10) (siblings are independent)
    tpl_s = stage_model(0)
    add(kind='clone-vs-direct', desc=dict(stages=[dict(spec=tpl_s, cfg=cfgs[1], t0=hz[0][0], T=hz[0][1], clone_of='tpl', pvals={}),
                                                  dict(spec=tpl_s, cfg=cfgs[1], t0=hz[2][0], T=hz[2][1], clone_of='tpl', pvals={}, post_der_scale=Fr(10))],
                                          coupling=[('cont', 0, 1), ('wge', 1)], parent=[('w2',)]))
    # a template whose horizon length is a PARAMETER, on a FreeGrid; every clone carries its own value (and its own window)
    tpl_p = fam.with_horizon(stage_model(0), (('num', Fr(0)), ('param', 'pT')))
    cfg_free = Cfg('MS', N=2, M=1, intg='rk', grid=fam.G_FREE)
    add(kind='clone-vs-direct', desc=dict(stages=[dict(spec=tpl_p, cfg=cfg_free, t0=('num', Fr(i_)), T=('param', 'pT'), clone_of='tplp', override=('t0',), tpl_h=(('num', Fr(0)), ('param', 'pT')),
                                                       pvals={'pT': Fr(1 + i_), 'a': Fr(5 + 2 * i_, 4)}) for i_ in range(2)],
                                          coupling=[('cont', 0, 1), ('wge', 1)], parent=[('w2',)]))
    # seeded random stage contents (model, constraint set, objective, guesses): direct and cloned
    from .. import randspec
    rr = random.Random(seed * 7919 + 1212)

    def rstage(method):
        s_ = fam.random_dae(rr) if (method == 'DC' and rr.random() < 0.3) else fam.random_ode(rr, nx=2, nu=1)
        if s_.nx != 2:
            s_ = fam.random_ode(rr, nx=2, nu=1)
        s_.t0, s_.T = ('num', Fr(1, 2)), ('num', Fr(1))      # (generators look at the horizon kind only)
        s_.cons = randspec.random_constraints(rr, s_, method, 1)
        s_.objective = randspec.random_objective(rr, s_, method)
        s_.initial = [(X(0), Fr(3, 2))]
        s_.note = 'random stage'
        return s_
    for ri in range(3 if tier == 'quick' else 60):
        ns = rr.choice([2, 2, 3])
        stages = []
        for i in range(ns):
            cfg = copy.deepcopy(rr.choice(cfgs))
            h = rr.choice(hz[0:1] + hz[2:3]) if i == 0 else rr.choice(hz)
            if rr.random() < 0.3 and i > 0 and stages[0]['clone_of'] is None and stages[0].get('rt'):
                stages.append(dict(spec=stages[0]['spec'], cfg=stages[0]['cfg'], t0=h[0], T=h[1], clone_of='rt', pvals={}))
            else:
                asclone = rr.random() < 0.3
                stages.append(dict(spec=rstage(cfg.method), cfg=cfg, t0=h[0], T=h[1], clone_of='rt%d' % i if asclone else None, pvals={}, rt=True))
        coupling = [('cont', i, i + 1) for i in range(ns - 1)] + [('wge', ns - 1)]
        add(kind='clone' if any(s_['clone_of'] for s_ in stages) else 'direct', desc=dict(stages=stages, coupling=coupling, parent=[('w2',)]), soft=True, family='random')
    # templates with their own (non-zero) window; clones overriding both, one or none of t0/T, including the override t0 = 0
    tph = (('num', Fr(1, 2)), ('num', Fr(3)))
    variants = [(('t0', 'T'), (('num', Fr(0)), ('num', Fr(3, 2)))), (('t0',), (('num', Fr(0)), tph[1])), (('T',), (tph[0], ('free', Fr(2)))),
                ((), tph), (('t0',), (('free', Fr(1)), tph[1])), (('t0', 'T'), (('num', Fr(2)), ('num', Fr(1))))]
    for vi in range(0, len(variants), 2):
        tplspec = stage_model(vi)
        cfg = cfgs[vi % len(cfgs)]
        stages = []
        for ov, hh in variants[vi:vi + 2]:
            stages.append(dict(spec=tplspec, cfg=cfg, t0=hh[0], T=hh[1], clone_of='tplw', tpl_h=tph, override=ov))
        coupling = [('cont', 0, 1), ('wge', 0)]
        add(kind='clone', desc=dict(stages=stages, coupling=coupling, parent=[('w2',)]))
    return items


def ref_all(inst, master, d, mut=None):
    """reference rows + objective of the multi-stage problem in domain d"""
    trs = inst.trajs(d)
    dom = trs[0].dom
    atoms = []
    obj = dom.const(0)
    for si, tr in enumerate(trs):
        cfg = tr.cfg
        r = Ref(tr)
        at = []
        if cfg.method == 'MS':
            at += rsh.gap_atoms(tr)
        elif cfg.method == 'DC':
            at += rco.dyn_atoms(tr)
        at += r.constraint_atoms() + r.horizon_atoms()
        atoms += [(k, term, 's%d:%s' % (si, lab)) for k, term, lab in at]
        obj = obj + r.objective()
    # parent level
    o = inst.view(d)[5]
    wv = o[0][0] if d != 'z' else inst.rdom.wrap(o[0][0])
    desc = master.desc
    for c in desc['coupling']:
        if c[0] in ('cont', 'cont@stage'):
            i, j = c[1], c[2]
            if mut == 'cont_first_node':
                for k in range(trs[i].spec.nx):
                    atoms.append(('eq', trs[j].X[0][k] - trs[i].X[0][k], 'couple:cont%d->%d[%d]' % (i, j, k)))
            else:
                for k in range(trs[i].spec.nx):
                    atoms.append(('eq', trs[j].X[0][k] - trs[i].X[trs[i].N][k], 'couple:cont%d->%d[%d]' % (i, j, k)))
        elif c[0] == 'time':
            i, j = c[1], c[2]
            atoms.append(('eq', trs[j].t0 - (trs[i].t0 + trs[i].T), 'couple:time%d->%d' % (i, j)))
        elif c[0] == 'wge':
            i = c[1]
            atoms.append(('le', trs[i].X[trs[i].N][0] - wv, 'couple:w>=x%d' % i))
        elif c[0] == 'wge8':
            i = c[1]
            atoms.append(('le', (trs[i].X[trs[i].N][0] - wv) / trs[i].dom.const(8), 'couple:(w>=x%d)/8' % i))
    for p in desc['parent']:
        if p[0] == 'w2':
            obj = obj + wv * wv
        elif p[0] == 'T':
            obj = obj + trs[p[1]].T
        elif p[0] == 'par':
            wr = (lambda v: v) if d != 'z' else inst.rdom.wrap
            w2v, pa0, pa1, pbv = wr(o[1][0]), wr(o[2][0]), wr(o[2][1]), wr(o[3][0])
            atoms.append(('le', pa1 * wv + pbv - w2v, 'parent:w2>=pa1*w+pb'))
            obj = obj + pa0 * w2v * w2v + pbv * wv
    return atoms, obj


def run_clone_vs_direct(item):
    """relational: the OCP whose stages are created from templates and the OCP with the same stages declared directly are two real transcriptions
    with the same rows, objective and starting point (used where no reference semantics of the content is at hand: grid='inf' certificates)"""
    desc = item['desc']
    direct = copy.deepcopy(desc)
    for sd in direct['stages']:
        sd['clone_of'] = None
    tag = '+'.join(s_['cfg'].method for s_ in desc['stages'])
    extra = lambda b: [b.ocp.value(b.w), b.ocp.value(b.w2), b.ocp.value(b.pa), b.ocp.value(b.pb)]
    with quiet():
        mc = build(desc)
        mc.ocp.solver('ipopt')
    C_ = Inst(None, None, seed=item.get('seed', 0), built=mc, solver=False, extra_outputs=extra)
    with quiet():
        md = build(direct)
        md.ocp.solver('ipopt')
    D_ = Inst(None, None, seed=item.get('seed', 0), built=md, solver=False, like=C_, bind=bind_positional(), extra_outputs=extra)
    ch = Checker(C_)
    viol = []
    diffs, npairs = compare_nlps(ch, C_, D_, 'stages from templates', 'stages declared directly')
    for key, label, detail in diffs:
        viol.append({'property': PROP, 'key': '%s|clone-vs-direct|%s' % (key, tag), 'label': label, 'detail': detail, 'cfg': tag, 'spec': repr([(s_['spec'].note, s_['clone_of']) for s_ in desc['stages']])})
    xa, xb = list(C_.nlp.x0()), list(D_.nlp.x0())
    if len(xa) != len(xb) or not all(close(float(a), float(c)) for a, c in zip(xa, xb)):
        viol.append({'property': PROP, 'key': 'x0-differs|clone-vs-direct|%s' % tag, 'label': 'x0', 'detail': 'starting point of the cloned stages differs from that of the directly declared ones', 'cfg': tag, 'spec': ''})
    r = result(C_, ch, {'violations': viol, 'twins_ok': 0, 'twins_bad': 0, 'shape': 'clone-vs-direct|%s' % tag, 'sample': {'kind': 'clone-vs-direct', 'rows': C_.nlp.ng, 'pairs': npairs, 'stages': tag}})
    if viol:
        r['status'] = 'violation'
    return r


def run(item):
    if item['kind'] == 'clone-vs-direct':
        return run_clone_vs_direct(item)
    desc = item['desc']
    with quiet():
        master = build(desc)
    unresolved = []

    def extra(b):
        ov = b.ocp.value(b.ocp.objective)
        known = list(b.ocp._method.opti.advanced.symvar())
        free = [s_.name() for s_ in ca.symvar(ov) if not any(ca.is_equal(s_, k_) for k_ in known)]
        if free:
            unresolved.extend(free)
            ov = ca.MX(0)
        return [b.ocp.value(b.w), b.ocp.value(b.w2), b.ocp.value(b.pa), b.ocp.value(b.pb), ov]
    inst = Inst(None, None, seed=item.get('seed', 0), built=master, extra_outputs=extra)
    ch = Checker(inst)
    z3 = inst.z3
    viol = []
    mut = item.get('mut')
    tag = '+'.join(s['cfg'].method for s in desc['stages'])

    def V(key, label, detail, pt=None):
        v = {'property': PROP, 'key': '%s|%s|%s' % (key, item['kind'], tag), 'label': label, 'detail': detail, 'cfg': tag, 'spec': repr([(s['spec'].note, s['t0'], s['T'], s['clone_of']) for s in desc['stages']])}
        viol.append(v)
    doms = inst.domains()
    ra = {}
    ro = {}
    for d in doms:
        ra[d], ro[d] = ref_all(inst, master, d, mut)
    keep = [j for j, (kind, term, label) in enumerate(ra['z'])
            if not (isinstance(term, RZ) and term.k is not None and ((kind == 'le' and term.k <= 0) or (kind == 'eq' and term.k == 0)))]
    ra = {d: [ra[d][j] for j in keep] for d in ra}
    impa = impl_atoms(inst)
    pairs, un_ref, un_impl = ch.match(ra, impa)
    from .c04 import tautology
    for j in un_ref:
        lab = ra['z'][j][2]
        if ra['z'][j][0] == 'le' and tautology(ch, ra['z'][j][1]):
            continue        # e.g. x*x >= 0: CasADi folds the relation to `true`; no restriction of the feasible set
        V('missing:%s' % ('coupling' if lab.startswith('couple') else 'stage-row'), lab, 'expected row of the union has no equal row in the multi-stage NLP')
    # model variables of all stages
    trsz = inst.trajs('z')
    stage_vars = []
    for tr in trsz:
        vs = set()
        terms = [x for col in tr.X for x in col] if tr.cfg.method != 'SS' else list(tr.X[0])
        terms += [u for col in tr.U for u in col]
        for col in tr.Vc.values():
            terms += [x for c_ in col for x in c_]
        for tm in terms:
            vs |= ch._vars(tm)
        stage_vars.append(vs)
    allmv = set().union(*stage_vars)
    for i in un_impl:
        vs = ch._vars(impa['z'][i][1])
        if vs & allmv:
            V('extra-row', 'row %d' % impa['z'][i][2], 'row of the multi-stage NLP belongs to no stage and to no declared coupling; touches %s' % sorted(vs & allmv)[:4])
    for i in range(len(stage_vars)):
        for j in range(i + 1, len(stage_vars)):
            if stage_vars[i] & stage_vars[j]:
                V('stages-share-variables', 'stage %d/%d' % (i, j), 'named decision variables shared between stages: %s' % sorted(stage_vars[i] & stage_vars[j])[:5])
            else:
                ch.proved.append('disjoint variables %d/%d' % (i, j))
    fi = {d: inst.view(d)[0] for d in doms}
    if not ch.prove('f == sum of stage objectives + parent terms', fi, ro) and ch.violations:
        v = ch.violations.pop()
        V('objective', 'f', 'multi-stage objective is not the sum: %s' % {k: v.get(k) for k in ('how', 'impl', 'ref')})
    # value(ocp.objective) of the multi-stage OCP is the cost that is minimised (own terms and those of every stage)
    if unresolved:
        V('objective-value', 'value(ocp.objective)', 'value(ocp.objective) of the multi-stage OCP still contains symbols that are no NLP quantities: %s' % sorted(set(unresolved))[:6])
    elif not ch.prove('value(ocp.objective) == f', {d: inst.view(d)[5][4][0] for d in doms}, fi) and ch.violations:
        v = ch.violations.pop()
        V('objective-value', 'value(ocp.objective)', 'value(ocp.objective) of the multi-stage OCP differs from the NLP objective: %s' % {k: v.get(k) for k in ('how', 'impl', 'ref')})
    # the parent's own symbols: variables read back as decision variables, parameters as NLP parameters carrying the values that were set
    oz = inst.view('z')[5]
    xnames = {str(v) for v in inst.xv}
    pnames = {str(v) for v in inst.pv}
    for nm, terms, want in (('w', [oz[0][0]], 'x'), ('w2', [oz[1][0]], 'x'), ('pa', list(oz[2]), 'p'), ('pb', [oz[3][0]], 'p')):
        for t_ in terms:
            st_ = str(z3.simplify(emb(t_)))
            if st_ not in (xnames if want == 'x' else pnames):
                V('parent-symbol-kind', nm, "value(%s) of the parent is %s, which is not a plain NLP %s" % (nm, st_[:60], 'decision variable' if want == 'x' else 'parameter'))
    o0 = inst.view(0)[5]
    pvals = None
    try:
        nlp = inst.nlp
        fo = inst.prog.run(inst.fdom, nlp.split(list(nlp.x0()), nlp.xsyms) + nlp.split(list(nlp.pval()), nlp.psyms))
        ex0 = fo[4 + len(inst.named.items):]
        pvals = [float(ex0[2][0]), float(ex0[2][1]), float(ex0[3][0])]
    except Exception:
        pass
    if pvals is not None:
        if not all(close(a_, b_) for a_, b_ in zip(pvals, [1.5, -0.75, 2.25])):
            V('parent-parameter-values', 'pa, pb', 'values of the parent parameters in the NLP are %s, set_value gave [1.5, -0.75, 2.25]' % pvals)
        else:
            ch.proved.append('parent parameter values (ground)')
    twins_ok = twins_bad = 0
    if not mut and any(c[0] in ('cont', 'cont@stage') for c in desc['coupling']):
        ch2 = Checker(inst, timeout_ms=5000)
        rt = {d: [a for a in ref_all(inst, master, d, 'cont_first_node')[0] if a[2].startswith('couple:cont')] for d in doms}
        _, un2, _ = ch2.match(rt, impa, far=False)
        if un2:
            twins_ok += 1
        else:
            twins_bad += 1
    npairs = len(pairs)
    # clones: relational against direct declaration; template unchanged
    if item['kind'] == 'clone':
        d2 = copy.deepcopy(desc)
        for s in d2['stages']:
            s['clone_of'] = None
        with quiet():
            m2 = build(d2)
        D = Inst(None, None, seed=item.get('seed', 0), built=m2, like=inst, bind=bind_positional(), extra_outputs=lambda b: [b.ocp.value(b.w), b.ocp.value(b.w2), b.ocp.value(b.pa), b.ocp.value(b.pb)])
        diffs, np2 = compare_nlps(ch, inst, D, 'cloned', 'direct')
        for key, label, detail in diffs:
            V('clone:' + key, label, detail)
        xa, xb = list(inst.nlp.x0()), list(D.nlp.x0())
        if len(xa) != len(xb) or not all(close(float(a), float(c)) for a, c in zip(xa, xb)):
            V('clone:x0-differs', 'x0', 'starting points of cloned and directly declared OCP differ')
        pa, pb = list(inst.nlp.pval()), list(D.nlp.pval())
        if len(pa) != len(pb) or not all(close(float(a), float(c)) for a, c in zip(pa, pb)):
            V('clone:p-differs', 'p', 'parameter values of the cloned OCP %s differ from the directly declared one %s (a value set on one clone leaked?)' % (pa, pb))
        else:
            ch.proved.append('clone parameter values == direct')
        first_clone = [s_ for s_ in desc['stages'] if s_['clone_of'] is not None][0]
        tkey = first_clone['clone_of']
        tpl, bt = master.templates[tkey]
        th = first_clone.get('tpl_h') or (('num', Fr(0)), ('num', Fr(1)))
        spec_t = first_clone['spec']
        for p_ in spec_t.params:
            if p_.grid == '' and p_.value is not None:
                try:
                    stored = float(ca.DM(tpl._param_vals[bt.psym[p_.name]]))
                except Exception:
                    stored = None
                if stored is None or not close(stored, float(p_.value)):
                    V('template-changed', 'template parameter %s' % p_.name, 'the value stored in the template changed from %s to %s after set_value on its clones' % (float(p_.value), stored))
        n_con = sum(len(v) for v in tpl._constraints.values())
        if len(tpl.states) != len(bt.xs) or n_con != len(spec_t.cons) or tpl._T != float(th[1][1]) or tpl._t0 != float(th[0][1]):
            V('template-changed', 'template', 'template content changed by cloning/transcription: states %d constraints %d T %s t0 %s' % (len(tpl.states), n_con, tpl._T, tpl._t0))
        else:
            ch.proved.append('template unchanged')
    r = result(inst, ch, {'violations': viol, 'twins_ok': twins_ok, 'twins_bad': twins_bad,
                          'shape': '%s|%s|%s' % (item['kind'], tag, [(s['t0'][0], s['T'][0]) for s in desc['stages']]),
                          'sample': {'kind': item['kind'], 'stages': [(s['cfg'].tag(), s['t0'][0], s['T'][0], s['clone_of']) for s in desc['stages']],
                                     'coupling': desc['coupling'], 'rows': inst.nlp.ng, 'matched': npairs}})
    if viol:
        r['status'] = 'violation'
    return r
