"""C03 Discretised dynamics and integrals converge to the continuous-time model at the classical order."""
import copy
import random
from fractions import Fraction as Fr

import casadi as ca
import numpy as np

from .. import families as fam
from ..dsl import (Cfg, Spec, Sym, Con, E, X, U, Z, Pg, Vg, t, T, t0, nl1, nl2, C, ev, at_tf, at_t0, integral)
from ..extract import declare, quiet, make_method
from ..instance import Inst
from ..match import Checker, close
from ..sx2smt import SXProgram, ConstPool, Z3Domain, RefZ3Domain, FloatDomain, emb, Unsupported, RockitRaised
from ..ref import collocation as rco
from .c16 import D
from .c17 import Ctx

PROP = 'C03'
LEVEL = 'other'
META = {
    'rule': 'four kinds of instance.  taylor: for a polynomial time-dependent vector field (with control and parameter) the real one-step map of discrete_system() (M=1) is differentiated k<=p times in the step at h=0 '
            '(CasADi AD on the traced expression) and proven equal to the Lie-derivative series of the declared ODE for ALL (x,u,p,t) (p=4 rk, 1 expl_euler), likewise the quadrature output against the series of the integrand; '
            'the (p+1)-th coefficient is shown to differ at a concrete point (ground): the order is exactly p.  tableau: the 8 order conditions up to order 4 on the classical RK4 tableau that C01 proves rockit implements.  '
            'colloc: quadrature order conditions sum_j B_j tau_j^(k-1) = 1/k hold up to k = 2d-1 (radau) / 2d (legendre) and fail for the next k on the tables rockit uses (ground); for the linear test equation the real '
            'collocation rows force x_next = R(lambda h) x with R the Pade approximant (z3, all lambda, h, x; rational-table schemes).  dae: with casadi.integrator stubbed, the DAE that intg_builtin / sys_simulator hand to '
            'CVODES/IDAS/collocation is proven to be the time-rescaled declared model for all values',
    'functions': ['rockit/sampling_method.py:discrete_system/intg_rk/intg_expl_euler/intg_builtin', 'rockit/direct_collocation.py:add_constraints (C, D, B tables, quadrature)', 'rockit/ocp.py:sys_simulator',
                  'rockit/direct_method.py:fill_placeholders_integral', 'rockit/stage.py:_ode'],
    'bounds': 'taylor: nx<=2 (and one 2x2 matrix state), fields of degree<=3 in x with explicit time, one control, one parameter; colloc: degree 1..5 both schemes (tables), Pade for radau 1-2 and legendre 1; dae: ODE and semi-explicit DAE models',
    'outside': 'that CVODES/IDAS/collocation integrators meet their tolerance (compiled floating-point numerics: not encodable); measured convergence rates over M; Butcher / collocation super-convergence theorems '
               'turning order conditions into convergence are trusted mathematics; M>1 is the M-fold composition with step T/M (proven in C01)',
    'assumptions': ['casadi.integrator is replaced by a recording stub (the DAE description is captured, nothing is integrated)', 'reals for floats'],
    'explanation': 'bounded symbolic checking of local-order identities on the real one-step maps and of the DAE hand-off, decided by z3; table order conditions are ground arithmetic',
}


def fields():
    out = []
    out.append(Spec(nx=1, nu=1, ode=[X(0) * X(0) * Pg('a') + t * U(0) + X(0) * t], params=[Sym('a', value=1)], note='scalar quadratic, time dependent'))
    out.append(Spec(nx=2, nu=1, ode=[X(1) * t + U(0), X(0) * X(1) - Pg('a') * t * t + X(0)], params=[Sym('a', value=1)], note='2d bilinear, time dependent'))
    out.append(Spec(nx=2, nu=1, ode=[X(1), E('pow', X(0), 3) * Pg('a') + U(0) * t], params=[Sym('a', value=1)], note='cubic oscillator with forcing'))
    # a square matrix-valued state (elements column-major) with a non-symmetric right-hand side
    out.append(Spec(nx=4, nu=1, xshape=[(2, 2)], ode=[X(1) * t + U(0), X(0) * X(2), X(3) - Pg('a') * t, X(0) + X(1) * X(1)], params=[Sym('a', value=1)], note='2x2 matrix state, non-symmetric'))
    return out


def instances(tier, seed):
    items = []

    def add(**kw):
        items.append(dict(id='%s#%d' % (PROP, len(items)), **kw))
    for fi, f in enumerate(fields()):
        for intg in ('rk', 'expl_euler'):
            for method in (('MS', 'SS') if tier != 'quick' else ('MS',)):
                add(kind='taylor', spec=f, intg=intg, method=method)
    add(kind='tableau')
    for scheme in ('radau', 'legendre'):
        for d in (1, 2, 3, 4, 5):
            add(kind='colloc-tables', scheme=scheme, degree=d)
    for scheme, d in (('radau', 1), ('radau', 2), ('legendre', 1)):
        for M in (1, 2):
            add(kind='pade', scheme=scheme, degree=d, M=M)
    for mi, m in enumerate(fam.ode_core()[:2] + fam.dae_core()[:1]):
        add(kind='dae', spec=m, intg='cvodes' if not m.nz else 'idas', which='discrete_system')
        if not m.vars and not any(p.grid == 'control+' for p in m.params):
            add(kind='dae', spec=m, intg='cvodes' if not m.nz else 'idas', which='sys_simulator')
    return items


# ------------------------------------------------------------------------------------------------
def run_taylor(item):
    import z3
    spec = copy.deepcopy(item['spec'])
    spec.quads = [X(0) * t + (U(0) if spec.nu else 0) * X(0)]
    spec.objective = [at_tf(X(0))]
    intg = item['intg']
    p_ord = 4 if intg == 'rk' else 1
    cfg = Cfg(item['method'], N=1, M=1, intg=intg)
    ctx = Ctx()
    with quiet():
        b = declare(spec, cfg)
        b.ocp.solver('ipopt')
        F = b.ocp.discrete_system()
    x0 = ca.MX.sym('x0', spec.nx)
    u = ca.MX.sym('u', spec.nu)
    h = ca.MX.sym('h')
    ts = ca.MX.sym('t0')
    pp = ca.MX.sym('p', F.size1_in('p'))
    res = F(x0=x0, u=u, T=h, t0=ts, p=pp, z0=ca.MX(0, 1))
    outs = []
    for name in ('xf', 'qf'):
        e = res[name]
        for k in range(0, p_ord + 2):
            outs.append(ca.substitute(e, h, 0))
            e = ca.jacobian(e, h)
    prog = SXProgram([x0, u, ts, pp], outs)
    prog.selfcheck(random.Random(1))
    zx = [z3.Real('x%d' % i) for i in range(spec.nx)]
    zu = [z3.Real('u%d' % i) for i in range(spec.nu)]
    zt = [z3.Real('t')]
    zp = [z3.Real('p%d' % i) for i in range(pp.numel())]
    zo = prog.run(ctx.zdom, [zx, zu, zt, zp])
    pts = [[[0.3 + 0.1 * i + 0.05 * r for i in range(n)] for n in (spec.nx, spec.nu, 1, pp.numel())] for r in range(2)]
    fo = [prog.run(ctx.fdom, p_) for p_ in pts]

    def leafs(vals, wrap):
        xs, us, tt, ps = vals

        def leaf(op, a):
            if op == 'x':
                return wrap(xs[a[0]])
            if op == 'u':
                return wrap(us[a[0]])
            if op == 't':
                return wrap(tt[0])
            if op == 'p':
                return wrap(ps[0])
            raise KeyError(op)
        return leaf
    f = list(spec.ode)
    key = 'taylor|%s' % intg
    nfac = 1
    # state: d^k/dh^k Phi(0) == D^{k-1} f   (k>=1),  Phi(0) == x
    for s in range(spec.nx):
        der = X(s)
        for k in range(0, p_ord + 2):
            idx = k
            ref_z = ev(der, leafs([zx, zu, zt, zp], ctx.rdom.wrap), ctx.rdom)
            lab = 'd^%d/dh^%d x%d(h)|0 == L_f^%d x%d' % (k, k, s, k, s)
            if k <= p_ord:
                ctx.prove(lab, zo[idx][s], ref_z, key + '|state')
            else:
                # exactness of the order: the next coefficient differs somewhere (ground)
                diff = [abs(fo[r][idx][s] - ev(der, leafs(pts[r], lambda v: v), ctx.fdom)) for r in range(2)]
                if max(diff) > 1e-9:
                    ctx.proved.append('order exactly %d for x%d (coefficient %d differs at a concrete point)' % (p_ord, s, k))
                else:
                    ctx.proved.append('coefficient %d of x%d also matches at the test points (order may be higher for this field)' % (k, s))
            der = D(der, f, True)
    # twin (vacuity): the first step derivative is not the doubled field
    wrongf = ev(f[0] * 2, leafs(pts[0], lambda v: v), ctx.fdom)
    ctx.twins = (1, 0) if abs(wrongf - fo[0][1][0]) > 1e-9 else (0, 1)
    # quadrature: d^k/dh^k Q(0) == D^{k-1} q
    q = spec.quads[0]
    der = q
    base = p_ord + 2
    ctx.prove('Q(0) == 0', zo[base][0], ctx.rdom.const(0), key + '|quad')
    for k in range(1, p_ord + 1):
        ref_z = ev(der, leafs([zx, zu, zt, zp], ctx.rdom.wrap), ctx.rdom)
        ctx.prove('d^%d/dh^%d Q(h)|0 == d^%d/dt^%d q' % (k, k, k - 1, k - 1), zo[base + k][0], ref_z, key + '|quad')
        der = D(der, f, True)
    return ctx.result('taylor %s %s %s' % (intg, item['method'], spec.note), {'kind': 'taylor', 'intg': intg, 'field': repr(spec.ode), 'order': p_ord, 'proved': len(ctx.proved)})


def run_tableau(item):
    import z3
    ctx = Ctx()
    half = Fr(1, 2)
    A = [[0, 0, 0, 0], [half, 0, 0, 0], [0, half, 0, 0], [0, 0, 1, 0]]
    bw = [Fr(1, 6), Fr(1, 3), Fr(1, 3), Fr(1, 6)]
    c = [sum(Fr(a) for a in row) for row in A]
    Ac = [sum(Fr(A[i][j]) * c[j] for j in range(4)) for i in range(4)]
    conds = [
        ('sum b = 1', sum(bw), Fr(1)),
        ('sum b c = 1/2', sum(b_ * ci for b_, ci in zip(bw, c)), Fr(1, 2)),
        ('sum b c^2 = 1/3', sum(b_ * ci ** 2 for b_, ci in zip(bw, c)), Fr(1, 3)),
        ('sum b A c = 1/6', sum(b_ * ac for b_, ac in zip(bw, Ac)), Fr(1, 6)),
        ('sum b c^3 = 1/4', sum(b_ * ci ** 3 for b_, ci in zip(bw, c)), Fr(1, 4)),
        ('sum b c A c = 1/8', sum(b_ * ci * ac for b_, ci, ac in zip(bw, c, Ac)), Fr(1, 8)),
        ('sum b A c^2 = 1/12', sum(bw[i] * sum(Fr(A[i][j]) * c[j] ** 2 for j in range(4)) for i in range(4)), Fr(1, 12)),
        ('sum b A A c = 1/24', sum(bw[i] * sum(Fr(A[i][j]) * Ac[j] for j in range(4)) for i in range(4)), Fr(1, 24)),
    ]
    for lab, lhs, rhs in conds:
        ctx.prove(lab, ctx.rdom.const(lhs).emb(), ctx.rdom.const(rhs).emb(), 'tableau')
    return ctx.result('tableau', {'kind': 'tableau', 'conditions': [c_[0] for c_ in conds]})


def run_colloc_tables(item):
    from ..extract import DirectCollocation
    ctx = Ctx()
    d, scheme = item['degree'], item['scheme']
    m = DirectCollocation(N=1, degree=d, scheme=scheme)
    tau = [float(x) for x in m.tau]
    B = [float(x) for x in np.array(ca.DM(m.B)).flatten()]
    kmax = 2 * d - 1 if scheme == 'radau' else 2 * d
    key = 'colloc-tables|%s%d' % (scheme, d)
    for k in range(1, kmax + 1):
        v = sum(bj * tj ** (k - 1) for bj, tj in zip(B, tau))
        if abs(v - 1.0 / k) < 1e-12:
            ctx.proved.append('sum_j B_j tau_j^%d == 1/%d' % (k - 1, k))
        else:
            ctx.viol.append({'property': PROP, 'key': key + '|quadrature-order', 'label': 'k=%d' % k, 'detail': 'quadrature condition of order %d fails on the tables rockit uses: %r vs %r' % (k, v, 1.0 / k)})
    k = kmax + 1
    v = sum(bj * tj ** (k - 1) for bj, tj in zip(B, tau))
    if abs(v - 1.0 / k) > 1e-9:
        ctx.proved.append('order exactly %d: condition k=%d fails' % (kmax, k))
    else:
        ctx.viol.append({'property': PROP, 'key': key + '|order-too-high', 'label': 'k=%d' % k, 'detail': 'tables satisfy the condition of order %d: these are not the %s points' % (k, scheme)})
    # reference tables agree with rockit's
    tb = rco.Tables(d, scheme)
    Cm = np.array(ca.DM(m.C))
    Dm = np.array(ca.DM(m.D)).flatten()
    ok = all(abs(Cm[r][j] - float(tb.C[r][j])) < 1e-9 * max(1, abs(Cm[r][j])) for r in range(d + 1) for j in range(d)) and all(abs(Dm[r] - float(tb.D[r])) < 1e-9 for r in range(d + 1))
    if ok:
        ctx.proved.append('C, D tables == Lagrange derivative / end values (ground)')
    else:
        ctx.viol.append({'property': PROP, 'key': key + '|tables', 'label': 'C/D', 'detail': 'collocation_coeff tables differ from the Lagrange basis derivatives / end values'})
    return ctx.result('colloc tables %s%d' % (scheme, d), {'kind': 'colloc-tables', 'scheme': scheme, 'degree': d, 'tau': tau, 'proved': len(ctx.proved)})


def run_pade(item):
    """linear test equation x' = lambda x under the real collocation rows: x_next = R(lambda h) x"""
    d, scheme, M = item['degree'], item['scheme'], item['M']
    spec = Spec(nx=1, nu=0, ode=[Pg('lam') * X(0)], params=[Sym('lam', value=1)], T=('free', Fr(1)), t0=('num', Fr(0)))
    spec.objective = [at_tf(X(0))]
    cfg = Cfg('DC', N=1, M=M, degree=d, scheme=scheme)
    I = Inst(spec, cfg)
    z3 = I.z3
    trz = I.traj('z')
    eqs = [t_ == 0 for k, t_, r in I.atoms('z') if k == 'eq']
    ch = Checker(I, hyps=eqs + [emb(trz.T) > 0])
    viol = []
    if not ch.check_hyps():
        return {'status': 'inconclusive', 'inconclusive': [{'label': 'hyps', 'why': 'collocation rows unsatisfiable'}], 'stats': ch.stats}
    lam = emb(trz.P['lam'][0])
    h = emb(trz.T) / M
    z = lam * h
    if (scheme, d) == ('radau', 1):
        Pn, Qn = 1, 1 - z
    elif (scheme, d) == ('radau', 2):
        Pn, Qn = 1 + z / 3, 1 - 2 * z / 3 + z * z / 6
    else:
        Pn, Qn = 1 + z / 2, 1 - z / 2
    import time
    for i in range(M):
        xs, xn = emb(trz.Xi[i][0]), emb(trz.Xi[i + 1][0])
        lab = 'x_%d * Q(z) == P(z) * x_%d  (Pade %s%d)' % (i + 1, i, scheme, d)
        t_ = time.time()
        ch.s.push()
        ch.s.add(xn * Qn != Pn * xs)
        r = str(ch.s.check())
        ch.s.pop()
        ch.stats[r] = ch.stats.get(r, 0) + 1
        ch.stats['queries'] += 1
        ch.stats['solver_s'] += time.time() - t_
        if r == 'unsat':
            ch.proved.append(lab)
            ch.nontrivial.add(lab)
        elif r == 'sat':
            viol.append({'property': PROP, 'key': 'pade|%s%d' % (scheme, d), 'label': lab, 'detail': 'a point satisfying all collocation rows does not propagate by the Pade stability function'})
        else:
            ch.inconclusive.append({'label': lab, 'why': 'solver ' + r})
    from .common import result
    r_ = result(I, ch, {'violations': viol, 'shape': 'pade %s%d M=%d' % (scheme, d, M), 'sample': {'kind': 'pade', 'scheme': scheme, 'degree': d, 'M': M, 'rows': I.nlp.ng}})
    if viol:
        r_['status'] = 'violation'
    return r_


class Captured(Exception):
    pass


def run_dae(item):
    """the DAE handed to CasADi's integrator is the time-rescaled declared model"""
    import z3
    import rockit.sampling_method as rsm
    import rockit.ocp as rocp
    spec = copy.deepcopy(item['spec'])
    which = item['which']
    ctx = Ctx()
    cfg = Cfg('MS', N=2, M=1, intg=item['intg'])
    cap = {}

    def fake(*args, **kw):
        cap['args'] = args
        raise Captured()
    with quiet():
        b = declare(spec, cfg)
        b.ocp.solver('ipopt')
    mod = rsm if which == 'discrete_system' else rocp
    real = mod.integrator
    mod.integrator = fake
    try:
        try:
            with quiet():
                if which == 'discrete_system':
                    b.ocp._method.discrete_system(b.ocp)
                else:
                    b.ocp.sys_simulator(intg=item['intg'])
        except Captured:
            pass
    finally:
        mod.integrator = real
    if 'args' not in cap:
        raise Unsupported('integrator was not called')
    dae = cap['args'][2]
    key = 'dae|%s' % which
    syms = ca.symvar(ca.veccat(dae['x'], dae['p'], dae.get('z', ca.MX(0, 1)), dae['t']))
    outs = [dae['ode']] + ([dae['alg']] if spec.nz else []) + ([dae['quad']] if 'quad' in dae and ca.MX(dae['quad']).numel() else [])
    prog = SXProgram(syms, outs + [dae['x'], dae['p'], dae['t']] + ([dae['z']] if spec.nz else []))
    prog.selfcheck(random.Random(2))
    zin = [[z3.Real('%s_%d_%d' % (s_.name(), si, j)) for j in range(s_.numel())] for si, s_ in enumerate(syms)]
    out = prog.run(ctx.zdom, zin)
    no = len(outs)
    xz, pz, tz = out[no], out[no + 1], out[no + 2][0]
    zz = out[no + 3] if spec.nz else []
    npar = sum(p.n for p in spec.params if which == 'discrete_system' or p.grid in ('', 'control')) if True else 0
    nv = sum(v.n for v in spec.vars)
    if which == 'discrete_system':
        # documented layout of the integrator parameter: [u, DT, DT_control, p(all parameters then variables), t0]
        us = pz[:spec.nu]
        DT = pz[spec.nu]
        rest = pz[spec.nu + 2:-1]
        t0z = pz[-1]
    else:
        # sys_simulator: [u, t0, dt, p]
        us = pz[:spec.nu]
        t0z = pz[spec.nu]
        DT = pz[spec.nu + 1]
        rest = pz[spec.nu + 2:]
    pnames = [(p.name, p.n) for p in spec.params] + [(v.name, v.n) for v in spec.vars]
    pd = {}
    off = 0
    order = [p for p in spec.params if p.grid == ''] + [p for p in spec.params if p.grid == 'control'] + [p for p in spec.params if p.grid == 'control+']
    order_v = [v for v in spec.vars if v.grid == ''] + [v for v in spec.vars if v.grid == 'control'] + [v for v in spec.vars if v.grid == 'control+']
    if which == 'sys_simulator':
        order = [p for p in order if p.grid in ('', 'control')]
        order_v = []
        # only parameters the right-hand side depends on are kept
        from ..dsl import leaves as lv
        used = set()
        for e in list(spec.ode) + list(spec.alg):
            used |= {l[1] for l in lv(e) if l[0] == 'p'}
        order = [p for p in order if p.name in used]
    for s_ in order + order_v:
        pd[s_.name] = rest[off:off + s_.n]
        off += s_.n
    if off != len(rest):
        ctx.viol.append({'property': PROP, 'key': key + '|parameter-vector', 'label': 'p', 'detail': 'integrator parameter vector has %d model entries, the model declares %d' % (len(rest), off)})
        return ctx.result('dae %s' % which, {'kind': 'dae'})
    tt = ctx.rdom.wrap(t0z) + ctx.rdom.wrap(tz) * ctx.rdom.wrap(DT)

    def leaf(op, a):
        if op == 'x':
            return ctx.rdom.wrap(xz[a[0]])
        if op == 'u':
            return ctx.rdom.wrap(us[a[0]])
        if op == 'z':
            return ctx.rdom.wrap(zz[a[0]])
        if op in ('p', 'v'):
            return ctx.rdom.wrap(pd[a[0]][a[1]])
        if op == 't':
            return tt
        raise KeyError(op)
    for s in range(spec.nx):
        ctx.prove('ode[%d] == DT*f(x,u,z,p,t0+tau*DT)' % s, out[0][s], ctx.rdom.wrap(DT) * ev(spec.ode[s], leaf, ctx.rdom), key + '|ode')
    if spec.nz:
        for a_, e in enumerate(spec.alg):
            ctx.prove('alg[%d] == a(x,u,z,p,t0+tau*DT)' % a_, out[1][a_], ev(e, leaf, ctx.rdom), key + '|alg')
    return ctx.result('dae %s %s' % (which, spec.note), {'kind': 'dae', 'which': which, 'model': repr(spec.ode), 'alg': repr(spec.alg), 'proved': len(ctx.proved)})


def run(item):
    k = item['kind']
    if k == 'taylor':
        return run_taylor(item)
    if k == 'tableau':
        return run_tableau(item)
    if k == 'colloc-tables':
        return run_colloc_tables(item)
    if k == 'pade':
        return run_pade(item)
    return run_dae(item)
