"""C06 The time grid is the declared partition of [t0, t0+T]."""
import copy
import random
from fractions import Fraction as Fr

from .. import families as fam
from ..dsl import Cfg, Spec, Sym, X, U, t, nl1
from ..instance import Inst
from ..match import Checker, close
from ..sx2smt import RZ, emb
from .common import multi, impl_atoms, model_vars, describe_violation, result

PROP = 'C06'
LEVEL = 'other'
META = {
    'rule': 'two kinds of instance.  kernel: the real GeometricGrid.normalized(N) executed on a solver real growth factor (all g>=1), N enumerated.  '
            'nlp: (grid class+options, N, M, method, horizon kinds): hypotheses = the time-grid rows rockit generated (rows not touching model variables), '
            'conclusions = declared partition facts; a conclusion is proven when hypotheses & not(conclusion) is unsat.  non-trivial = conclusion mentioning a solver variable; distinct by (shape, label)',
    'functions': ['rockit/sampling_method.py:Grid.__call__, FixedGrid.bounds_T/get_t0_local/get_T_local, UniformGrid.*, GeometricGrid.normalized/growth_factor/scale_first/constrain_T/bounds_T, '
                  'FreeGrid.*, FunctionGrid.*, add_variables_V_control(_finalize), add_coupling_constraints, get_DT_at, get_DT_control_at',
                  'rockit/multiple_shooting.py, single_shooting.py, direct_collocation.py: where coupling rows are emitted', 'rockit/direct_method.py:fill_placeholders_T/t0'],
    'bounds': 'grid classes: Uniform (localize_t0/localize_T/min/max), Geometric local/global (localize_T, min/max), FreeGrid (min/max, localize_t0), FunctionGrid; '
              'quick N in {1,2,3,4}, M in {1,2}; thorough N<=8, M<=4; horizon kinds num/free/param; MS, SS, DC; all real values of t0, T and the localized time variables',
    'outside': 'DensityGrid / DenseEdgesGrid beyond a GROUND check of three polynomial densities used one after the other (CVODES + scipy bisection are not encodable); ' + 'DensityGrid/DenseEdgesGrid (CVODES + scipy bisection produce floats: not encodable; only endpoint/monotonicity of the returned numbers would be ground facts); '
               'global geometric growth: g**(1/(N-1)) is replaced by a solver real r with r^(N-1)=g, r>=1; IEEE rounding',
    'assumptions': ['reals for floats; constants identified up to 1e-10', 'T>0 assumed where strict monotonicity is concluded'],
    'explanation': 'bounded symbolic checking: real grid kernels run on z3 reals; NLP-level implications decided by z3 (QF_NRA/LRA) over all values of the time variables',
}


def dyn_spec():
    return Spec(nx=1, nu=1, ode=[nl1(X(0)) * U(0) + t], note='scalar time-dependent model')


def grid_list(N):
    gl = [
        ('uniform', {}), ('uniform', {'min': Fr(1, 100), 'max': Fr(5)}),
        ('uniform', {'localize_t0': True}), ('uniform', {'localize_T': True}), ('uniform', {'localize_T': True, 'localize_t0': True}),
        ('uniform', {'localize_T': True, 'min': Fr(1, 100), 'max': Fr(5)}),
        ('geometric', {'growth_factor': 2, 'local': True}), ('geometric', {'growth_factor': 3, 'local': False}),
        ('geometric', {'growth_factor': 2, 'local': True, 'localize_T': True}),
        ('geometric', {'growth_factor': 2, 'local': True, 'min': Fr(1, 100), 'max': Fr(5)}),
        ('geometric', {'growth_factor': 2, 'local': True, 'localize_T': True, 'min': Fr(1, 100), 'max': Fr(5)}),
        ('geometric', {'growth_factor': 2, 'local': True, 'localize_t0': True}),
        ('free', {}), ('free', {'min': Fr(1, 100), 'max': Fr(5)}), ('free', {'localize_t0': True, 'min': Fr(1, 100)}),
        fam.G_FUN(N),
        ('function', dict(fam.G_FUN(N)[1], min=Fr(1, 100), max=Fr(5))),
        # grids given by their normalized points only, with localized time variables
        ('function', dict(fam.G_FUN(N)[1], localize_T=True)),
        ('function', dict(fam.G_FUN(N)[1], localize_T=True, localize_t0=True)),
        ('function', dict(fam.G_FUN(N)[1], localize_t0=True)),
    ]
    return gl


def instances(tier, seed):
    rng = random.Random(seed + 6)
    items = []

    def add(**kw):
        items.append(dict(id='%s#%d' % (PROP, len(items)), **kw))
    Ns = [1, 2, 3, 4, 5] if tier == 'quick' else [1, 2, 3, 4, 5, 6, 7, 8]
    for N in Ns:
        add(kind='kernel', N=N, local=True)
        add(kind='kernel', N=N, local=False)
    for N in ((3, 4) if tier == 'quick' else (1, 2, 3, 4, 6)):
        add(kind='density', N=N)
    H = fam.HORIZONS
    n = 0
    methods = [('MS', 'rk'), ('SS', 'rk'), ('DC', None)]
    Nq = [1, 2, 3, 4] if tier == 'quick' else [1, 2, 3, 4, 5, 6, 8]
    for gi in range(len(grid_list(2))):
        for mi, (method, intg) in enumerate(methods):
            reps = 1 if tier == 'quick' else 3
            for rep in range(reps):
                N = Nq[(n + rep) % len(Nq)]
                M = [1, 2][n % 2] if tier == 'quick' else rng.choice([1, 2, 3, 4])
                g = grid_list(N)[gi]
                h = H[(n + mi) % len(H)]
                if not fam.grid_is_rational(g) and not fam.horizon_symbolic(h):
                    h = H[2]
                add(kind='nlp', spec=fam.with_horizon(dyn_spec(), h), cfg=Cfg(method, N=N, M=M, intg=intg or 'rk', grid=g, degree=2, scheme='radau'))
                n += 1
        g0 = grid_list(3)[gi]
        if ('min' in g0[1] or 'max' in g0[1]) and g0[0] != 'free':
            # interval bounds are only decidable by the NLP when the horizon is a decision: always include a free-T instance
            for N in ((3,) if tier == 'quick' else (2, 3, 5)):
                add(kind='nlp', spec=fam.with_horizon(dyn_spec(), H[2]), cfg=Cfg(methods[gi % 3][0], N=N, M=1, intg=methods[gi % 3][1] or 'rk', grid=grid_list(N)[gi], degree=2, scheme='radau'))
    # the numeric horizon is re-declared after a first transcription (set_t0/set_T): control AND integrator grid follow the final horizon
    for mi, (method, intg) in enumerate(methods):
        g = [('uniform', {}), ('geometric', {'growth_factor': 2, 'local': True}), ('uniform', {'localize_T': True})][mi]
        add(kind='nlp', spec=fam.with_horizon(dyn_spec(), (('num', Fr(1)), ('num', Fr(4)))), cfg=Cfg(method, N=3, M=2, intg=intg or 'rk', grid=g, degree=2, scheme='radau'), rehorizon=(Fr(0), Fr(2)))
    return items


# ------------------------------------------------------------------------------------------------
def run_kernel(item):
    """real GeometricGrid.normalized on a solver real"""
    import z3
    import time
    from ..extract import GeometricGrid
    N, local = item['N'], item['local']
    g = z3.Real('g')
    grid = GeometricGrid(2, local=local)
    grid._growth_factor = g
    hyps = [g >= 1]
    if not local and N > 1:
        r = z3.Real('r')
        hyps += [r >= 1]
        p = z3.RealVal(1)
        for _ in range(N - 1):
            p = p * r
        hyps.append(p == g)
        grid.growth_factor = lambda n: r     # stub of g**(1/(N-1)) by its defining property
    n = grid.normalized(N)
    s = z3.Solver()
    s.set('timeout', 20000)
    s.add(*hyps)
    stats = {'unsat': 0, 'sat': 0, 'unknown': 0, 'queries': 0, 'solver_s': 0.0}
    proved, viol, incon = [], [], []
    assert str(s.check()) == 'sat'

    def prove(label, concl):
        t0 = time.time()
        s.push()
        s.add(z3.Not(concl))
        r_ = str(s.check())
        m = s.model() if r_ == 'sat' else None
        s.pop()
        stats[r_] += 1
        stats['queries'] += 1
        stats['solver_s'] += time.time() - t0
        if r_ == 'unsat':
            proved.append(label)
        elif r_ == 'sat':
            gv = m.eval(g, model_completion=True)
            viol.append({'property': PROP, 'key': 'kernel|geometric-%s' % ('local' if local else 'global'), 'label': label,
                         'detail': 'GeometricGrid(local=%s).normalized(%d) violates %s for growth factor %s' % (local, N, label, gv)})
        else:
            incon.append({'label': label, 'why': 'solver ' + r_})
    zero = z3.RealVal(0)
    n = [x if z3.is_expr(x) else z3.RealVal(x) for x in n]
    prove('n[0]==0', n[0] == 0)
    prove('n[N]==1', n[N] == 1)
    for k in range(N):
        prove('n[%d]<n[%d]' % (k, k + 1), n[k] < n[k + 1])
    if local:
        for k in range(N - 1):
            prove('ratio[%d]==g' % k, (n[k + 2] - n[k + 1]) == g * (n[k + 1] - n[k]))
    else:
        if N > 1:
            prove('last==g*first', (n[N] - n[N - 1]) == g * (n[1] - n[0]))
            for k in range(N - 1):
                prove('ratio[%d]==g^(1/(N-1))' % k, (n[k + 2] - n[k + 1]) == r * (n[k + 1] - n[k]))
    res = {'stats': stats, 'obligations': len(proved) + len(viol) + len(incon), 'discharged': len(proved), 'nontrivial': proved,
           'violations': viol, 'inconclusive': incon or None, 'shape': 'kernel geometric local=%s' % local,
           'sample': {'kernel': 'GeometricGrid.normalized', 'N': N, 'local': local, 'proved': proved}}
    if viol:
        res['status'] = 'violation'
    elif incon:
        res['status'] = 'inconclusive'
    return res


def partition(g, N):
    """declared normalised partition as exact rationals (None if not fixed / irrational)"""
    kind, kw = g
    if kind == 'uniform':
        return [Fr(k, N) for k in range(N + 1)]
    if kind == 'function':
        return [Fr(p) for p in kw['points']]
    if kind == 'geometric' and kw.get('local'):
        gf = Fr(kw['growth_factor'])
        acc = [Fr(0)]
        b = Fr(1)
        for _ in range(N):
            acc.append(acc[-1] + b)
            b *= gf
        return [a / acc[-1] for a in acc]
    if kind == 'geometric':
        gf = float(kw['growth_factor'])
        r = gf ** (1.0 / (N - 1)) if N > 1 else gf
        acc = [0.0]
        b = 1.0
        for _ in range(N):
            acc.append(acc[-1] + b)
            b *= r
        return [a / acc[-1] for a in acc]
    return None


def run_density(item):
    """GROUND check (no solver: DensityGrid integrates its density with CVODES and bisects with scipy, which cannot be encoded).
    Several density grids with DIFFERENT polynomial densities and the same N are used one after the other in this process; each must
    equidistribute its own density (exact antiderivative), start at 0, end at 1 and increase; the grid seen by a transcribed OCP is
    t0 + T * those nodes."""
    import casadi as ca
    from rockit import Ocp, MultipleShooting
    from rockit.sampling_method import DensityGrid
    from ..extract import quiet
    import numpy as np
    from fractions import Fraction as F_
    viol, proved = [], []
    tau = ca.MX.sym('tau')
    dens = [('1+3 tau^2', 1 + 3 * tau ** 2, lambda s_: s_ + s_ ** 3, 2.0), ('4-3 tau', 4 - 3 * tau, lambda s_: 4 * s_ - 1.5 * s_ ** 2, 2.5),
            ('1+2 tau', 1 + 2 * tau, lambda s_: s_ + s_ ** 2, 2.0)]
    N = item['N']
    for name, expr, cum, total in dens:
        with quiet():
            g = DensityGrid(expr)
            n = [float(v) for v in g.normalized(N)]
            ocp = Ocp(t0=0.5, T=2.0)
            x = ocp.state()
            u = ocp.control()
            ocp.set_der(x, u)
            ocp.subject_to(ocp.at_t0(x) == 0)
            ocp.add_objective(ocp.integral(u * u))
            ocp.solver('ipopt')
            ocp.method(MultipleShooting(N=N, M=2, grid=DensityGrid(expr)))
            ts = ocp.sample(ocp.t, grid='control')[1]
            tv = [float(v) for v in np.array(ca.evalf(ts)).flatten()] if ca.MX(ts).is_constant() else None
        ok = abs(n[0]) < 1e-12 and abs(n[-1] - 1) < 1e-12 and all(n[i + 1] > n[i] for i in range(N))
        shares = [cum(v) / total for v in n]
        eq = all(abs(shares[i] - i / N) < 1e-5 for i in range(N + 1))
        if not ok or not eq:
            viol.append({'property': PROP, 'key': 'density-grid|%s' % ('partition' if not ok else 'equidistribution'), 'label': 'DensityGrid(%s), N=%d' % (name, N),
                         'detail': 'nodes %s: cumulative shares of the density at the nodes are %s, expected i/N (density grids of other densities with the same N were used before in this process)' % ([round(v, 5) for v in n], [round(v, 5) for v in shares])})
        else:
            proved.append('DensityGrid(%s) N=%d equidistributes its density (ground)' % (name, N))
        if tv is not None:
            if all(abs(tv[i] - (0.5 + 2.0 * n[i])) < 1e-9 for i in range(N + 1)):
                proved.append('control grid of the OCP == t0 + T*nodes, DensityGrid(%s) (ground)' % name)
            else:
                viol.append({'property': PROP, 'key': 'density-grid|ocp-grid', 'label': 'DensityGrid(%s), N=%d' % (name, N), 'detail': 'sampled control times %s differ from t0+T*nodes %s' % (tv, [0.5 + 2 * v for v in n])})
    res = {'stats': {}, 'obligations': len(proved) + len(viol), 'discharged': len(proved), 'nontrivial': proved, 'violations': viol, 'shape': 'density N=%d' % N,
           'sample': {'kind': 'density (ground)', 'N': N, 'densities': [d[0] for d in dens]}}
    if viol:
        res['status'] = 'violation'
    return res


def run(item):
    if item['kind'] == 'density':
        return run_density(item)
    if item['kind'] == 'kernel':
        return run_kernel(item)
    spec, cfg = item['spec'], item['cfg']
    N, M = cfg.N, cfg.M
    built = None
    if item.get('rehorizon'):
        from .common import rehorizon_built
        built = rehorizon_built(spec, cfg, item['rehorizon'])
    inst = Inst(spec, cfg, seed=item.get('seed', 0), built=built, solver=built is None,
                extra_outputs=lambda b: [b.ocp.sample(b.ocp.t, grid='control')[1], b.ocp.sample(b.ocp.DT_control, grid='control')[1],
                                         b.ocp.sample(b.ocp.DT, grid='integrator')[1], b.ocp.sample(b.ocp.t, grid='integrator')[1]])
    z3 = inst.z3
    ch0 = Checker(inst)
    mv = model_vars(inst, ch0)
    impa = impl_atoms(inst)
    # hypotheses: every NLP row that does not touch model variables (the grid's own rows, T>=0)
    hyps = []
    time_rows = []
    for kind, term, row in impa['z']:
        if not (ch0._vars(term) & mv):
            hyps.append(term == 0 if kind == 'eq' else term <= 0)
            time_rows.append(row)
    trz = inst.traj('z')
    Tz, t0z = emb(trz.T), emb(trz.t0)
    hyps_pos = hyps + [Tz > 0]
    ch = Checker(inst, hyps=hyps_pos)
    viol = []

    def V(key, label, detail, model=None):
        v = describe_violation(inst, PROP, '%s|%s|%s' % (key, cfg.method, cfg.grid[0] + ''.join(sorted('+' + k for k in cfg.grid[1] if k in ('localize_T', 'localize_t0', 'min', 'max', 'local')))), label, detail)
        if model is not None:
            v['point'] = {'x': model[0], 'p': model[1]}
        viol.append(v)
    if not ch.check_hyps():
        return {'status': 'inconclusive', 'inconclusive': [{'label': 'hypotheses', 'why': 'grid rows + T>0 unsatisfiable: vacuous'}], 'stats': ch.stats}

    def holds(label, concl, key):
        """hyps => concl ?"""
        import time
        t_ = time.time()
        ch.s.push()
        ch.s.add(z3.Not(concl))
        r = str(ch.s.check())
        m = ch.s.model() if r == 'sat' else None
        ch.s.pop()
        ch.stats[r] = ch.stats.get(r, 0) + 1
        ch.stats['queries'] += 1
        ch.stats['solver_s'] += time.time() - t_
        if r == 'unsat':
            ch.proved.append(label)
            if ch0._vars(concl):
                ch.nontrivial.add(label)
            return True
        if r == 'sat':
            pt = ch.model_point(m)
            # replay: the real NLP time rows are satisfied at the model point, the conclusion is not
            V(key, label, 'there is an assignment of the time variables satisfying every grid row of the NLP (rows %s) for which `%s` fails' % (time_rows, label), pt)
            return False
        ch.inconclusive.append({'label': label, 'why': 'solver ' + r})
        return False
    tc = [emb(x) for x in trz.tc]
    ti = [emb(x) for x in trz.ti]
    holds('tc[0]==t0', tc[0] == t0z, 'start')
    holds('tc[N]==t0+T', tc[N] == t0z + Tz, 'end')
    for k in range(N):
        holds('tc[%d]<tc[%d]' % (k, k + 1), tc[k] < tc[k + 1], 'monotone') if cfg.grid[0] != 'free' else holds('tc[%d]<=tc[%d]' % (k, k + 1), tc[k] <= tc[k + 1], 'monotone')
    part = partition(cfg.grid, N)
    if part is not None:
        for k in range(1, N):
            nk = part[k]
            c = inst.rdom.const(nk if isinstance(nk, Fr) else float(nk)).emb()
            holds('tc[%d]==t0+n_%d*T' % (k, k), tc[k] == t0z + c * Tz, 'partition')
    # integrator grid: M equal sub-steps
    for k in range(N):
        for j in range(M):
            holds('ti[%d,%d]' % (k, j), ti[k * M + j] == tc[k] + (tc[k + 1] - tc[k]) * z3.RealVal(str(Fr(j, M))), 'integrator-grid')
    holds('ti[last]', ti[N * M] == tc[N], 'integrator-grid')
    # sampled t / DT / DT_control
    ex = inst.view('z')[5]
    ts, dtc, dti, tis = ex
    for k in range(N + 1):
        holds('sample(t,control)[%d]' % k, ts[k] == tc[k], 'sample-t')
        kk = min(k, N - 1)
        holds('sample(DT_control)[%d]' % k, dtc[k] == tc[kk + 1] - tc[kk], 'sample-DT_control')
    for n_ in range(N * M + 1):
        k = min(n_ // M, N - 1)
        holds('sample(DT,integrator)[%d]' % n_, dti[n_] == (tc[k + 1] - tc[k]) / M, 'sample-DT')
        holds('sample(t,integrator)[%d]' % n_, tis[n_] == ti[n_], 'sample-t')
    # min / max on the control interval length are enforced by the NLP rows
    kw = cfg.grid[1]
    def decided(k):
        # a purely numeric/parametric interval length cannot be restricted by NLP rows (it is data)
        return cfg.grid[0] == 'free' or any(v.startswith('x') for v in ch0._vars(Tz))
    if 'min' in kw:
        mn = z3.RealVal(str(Fr(kw['min'])))
        for k in range(N):
            if decided(k):
                holds('dt[%d]>=min' % k, tc[k + 1] - tc[k] >= mn, 'min-not-enforced')
    if 'max' in kw:
        mx = z3.RealVal(str(Fr(kw['max'])))
        for k in range(N):
            if decided(k):
                holds('dt[%d]<=max' % k, tc[k + 1] - tc[k] <= mx, 'max-not-enforced')
    # twin (vacuity): a shifted partition must NOT be provable
    twins_ok = twins_bad = 0
    if N >= 2:
        ch.s.push()
        ch.s.add(z3.Not(tc[1] == t0z + z3.RealVal('123/1000') * Tz))
        r = str(ch.s.check())
        ch.s.pop()
        if r == 'sat':
            twins_ok += 1
        else:
            twins_bad += 1
    r = result(inst, ch, {'violations': viol, 'twins_ok': twins_ok, 'twins_bad': twins_bad,
                          'shape': '%s|%s' % (cfg.tag(), spec.t0[0] + '/' + spec.T[0]),
                          'sample': {'cfg': cfg.tag(), 'horizon': [spec.t0[0], spec.T[0]], 'time_rows': time_rows, 'hypotheses': [str(h)[:120] for h in hyps][:8],
                                     'conclusions_proved': len(ch.proved)}})
    r['obligations'] = len(ch.proved) + len(viol) + len(ch.inconclusive)
    if viol:
        r['status'] = 'violation'
    return r
