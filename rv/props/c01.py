"""C01 Shooting transcription encodes exactly the chosen integration scheme."""
import copy
import random
from fractions import Fraction as Fr

from .. import families as fam
from ..dsl import Cfg, leaves, Spec, Sym, X, U, Pg, t, nl1
from ..instance import Inst
from ..match import Checker
from ..ref import shooting as ref
from .common import multi, impl_atoms, timevars, model_vars, describe_violation, result

PROP = 'C01'
LEVEL = 'translation_validation'

META = {
    'rule': 'instance = (ODE/difference model, horizon kinds, method, intg, N, M, grid); non-trivial = proven '
            'obligation whose term depends on decision variables; distinct = by (instance shape, obligation label)',
    'functions': ['rockit/sampling_method.py:SamplingMethod.discrete_system/intg_rk/intg_expl_euler/get_p_sys/eval_at_*',
                  'rockit/stage.py:Stage._ode/_diffeq/_expr_apply/sample', 'rockit/multiple_shooting.py:add_variables/add_constraints',
                  'rockit/single_shooting.py:add_variables/add_constraints'],
    'bounds': 'quick: N<=3, M<=2, nx<=3, nu<=2; thorough: N<=5, M<=4 (SingleShooting: N*M<=4, <=2 with symbolic step lengths or purely polynomial nonlinear models; MultipleShooting with purely polynomial nonlinear models: M<=2); all real values of decision vector, parameters, t0, T; '
              'right-hand sides contain uninterpreted markers (any function of that arity)',
    'outside': 'CasADi built-in integrators; B-spline signals inside dynamics; IEEE rounding; non-rational grids with numeric horizon',
    'assumptions': ['reals for floats; constants identified up to 1e-10 relative', 'erf/atan2 markers stand for arbitrary total functions',
                    'node times are rockit\'s own sampled times (their correctness is C06)'],
}


def instances(tier, seed):
    rng = random.Random(seed)
    items = []

    def add(spec, cfg, **kw):
        items.append(dict(id='%s#%d' % (PROP, len(items)), spec=spec, cfg=cfg, **kw))
    core = fam.ode_core()
    dcore = fam.diffeq_core()
    H = fam.HORIZONS
    grids = [fam.G_UNI, fam.G_GEO_LOC, fam.G_UNI_LT0, fam.G_UNI_LT, fam.G_FREE, fam.G_GEO_GLOB, 'fun', fam.G_GEO_LOC_LT, fam.G_UNI_LTT]
    n = 0
    # core: every model x method x intg, rotating horizons / grids / sizes
    for si, s in enumerate(core):
        for method in ('MS', 'SS'):
            for intg in ('rk', 'expl_euler'):
                h = H[n % len(H)]
                g = grids[n % len(grids)]
                N = [2, 3, 1][n % 3]
                M = [1, 2][(n // 2) % 2]
                if g == 'fun':
                    g = fam.G_FUN(N)
                if not fam.grid_is_rational(g) and not fam.horizon_symbolic(h):
                    h = H[2]
                add(fam.with_horizon(s, h), Cfg(method, N=N, M=M, intg=intg, grid=g))
                n += 1
    # deeper sub-stepping (a sub-step clock that is only wrong from the third step on must be seen)
    for mi, (method, intg, M) in enumerate((('MS', 'rk', 3), ('SS', 'expl_euler', 4), ('MS', 'expl_euler', 3), ('SS', 'rk', 3))):
        add(fam.with_horizon(core[mi % 2], H[(mi * 2 + 1) % len(H)]), Cfg(method, N=2, M=M, intg=intg, grid=[fam.G_UNI, fam.G_GEO_LOC][mi % 2]))
    add(fam.with_horizon(dcore[0], H[1]), Cfg('MS', N=2, M=3, intg='rk', grid=fam.G_UNI))
    # a vector-valued state whose right-hand side is given as ONE scalar (repeated), next to another state
    from ..dsl import Spec
    sb = Spec(nx=3, nu=1, xshape=[(2, 1), (1, 1)], ode=[Pg('a') * t, Pg('a') * t, nl1(X(0)) + U(0) * X(1)], params=[Sym('a', value=2)],
              ode_broadcast={0: Pg('a') * t}, note='scalar right-hand side for a vector state')
    for method, intg in (('MS', 'rk'), ('SS', 'expl_euler')):
        add(fam.with_horizon(sb, H[1]), Cfg(method, N=2, M=2, intg=intg, grid=fam.G_UNI))
    # the horizon changed after a first transcription (set_t0/set_T on a transcribed OCP): node and stage times are those of the final horizon
    for mi, (method, intg) in enumerate((('MS', 'rk'), ('SS', 'rk'), ('MS', 'expl_euler'))):
        add(fam.with_horizon(core[mi % len(core)], (('num', Fr(1, 2)), ('num', Fr(2)))), Cfg(method, N=2, M=2, intg=intg, grid=[fam.G_UNI, fam.G_GEO_LOC][mi % 2]), rehorizon=(Fr(0), Fr(1)))
    for s in dcore:
        for method in ('MS', 'SS'):
            h = H[n % len(H)]
            g = grids[n % 5]
            add(fam.with_horizon(s, h), Cfg(method, N=[2, 3][n % 2], M=[2, 1][n % 2], intg='rk', grid=g))
            n += 1
    from ..dsl import Spec as Spec_
    # a per-interval parameter AND a per-node (include_last) parameter inside the dynamics: each reaches the integrator in its own slot
    spp = Spec_(nx=2, nu=1, ode=[nl1(X(1)) * U(0) * Pg('pp') + t * X(0), X(0) - X(1) * Pg('pc') + Pg('pp')], params=[Sym('pc', 'control', value=3), Sym('pp', 'control+', value=Fr(1, 2))], note='control and control+ parameters in the dynamics')
    for method, intg in (('MS', 'rk'), ('SS', 'expl_euler')):
        add(fam.with_horizon(spp, H[1]), Cfg(method, N=2, M=2, intg=intg or 'rk', grid=fam.G_UNI, degree=2, scheme='radau'))
    # a square MATRIX-valued state with a non-symmetric right-hand side (element (i,j) of the state follows element (i,j) of the right-hand side)
    sm = Spec_(nx=5, nu=1, xshape=[(2, 2), (1, 1)], ode=[X(1) * 2 + t, X(0) - U(0), nl1(X(3)) + X(4), X(2) * X(0), X(1) - X(2)], note='2x2 matrix state, non-symmetric right-hand side')
    for method, intg in (('MS', 'rk'), ('SS', 'expl_euler')):
        add(fam.with_horizon(sm, H[1]), Cfg(method, N=2, M=2, intg=intg, grid=fam.G_UNI))
    # update rules given in another order than the states were declared (one call per state, reversed; one call on a concatenation)
    for oi, order in enumerate(('reversed', 'concat-reversed')):
        for method in ('MS', 'SS'):
            s = copy.deepcopy(dcore[oi % len(dcore)])
            if s.nx < 2:
                s = copy.deepcopy([d_ for d_ in dcore if d_.nx >= 2][0])
            s.nxt_order = order
            add(fam.with_horizon(s, H[(oi + 1) % len(H)]), Cfg(method, N=2, M=[2, 1][oi], intg='rk', grid=fam.G_UNI))
    nrand = 12 if tier == 'quick' else 600
    for r in range(nrand):
        disc = rng.random() < 0.25
        s = fam.random_diffeq(rng) if disc else fam.random_ode(rng)
        h = rng.choice(H)
        g = rng.choice(grids)
        big = tier != 'quick'
        N = rng.choice([1, 2, 3] + ([4, 5] if big else []))
        M = rng.choice([1, 2] + ([3, 4] if big else []))
        if g == 'fun':
            g = fam.G_FUN(N)
        if not fam.grid_is_rational(g) and not fam.horizon_symbolic(h):
            h = H[4]
        meth = rng.choice(['MS', 'SS'])
        # z3's normaliser does not finish on high-degree polynomial compositions (timeouts are not verdicts):
        # SingleShooting nests all N*M steps, a symbolic horizon / free grid multiplies every stage by a variable step,
        # a purely polynomial nonlinear model squares the degree at every RK stage
        from ..dsl import has_wrap
        exprs_ = (s.ode or []) + (s.nxt or [])
        purepoly = max(fam.pdeg(e) for e in exprs_) >= 2 and not any(has_wrap(e, {'nl1', 'nl2'}) for e in exprs_)
        symbolic_steps = fam.horizon_symbolic(h) or fam.grid_free_vars(g)
        if meth == 'SS':
            cap = 2 if (symbolic_steps or purepoly) else 4
            while N * M > cap:
                if M > 1:
                    M -= 1
                else:
                    N -= 1
        elif purepoly:
            M = min(M, 1 if symbolic_steps else 2)
        add(fam.with_horizon(s, h), Cfg(meth, N=N, M=M, intg=rng.choice(['rk', 'expl_euler']), grid=g), soft=True, timeout=60)
    return items


def time_dependent(spec):
    ex = (spec.ode or []) + (spec.nxt or [])
    return any(('t',) in leaves(e) for e in ex)


def run(item):
    spec, cfg = item['spec'], item['cfg']
    built = None
    if item.get('rehorizon'):
        from .common import rehorizon_built
        built = rehorizon_built(spec, cfg, item['rehorizon'], poly=item.get('poly', False))
    inst = Inst(spec, cfg, seed=item.get('seed', 0), poly=item.get('poly', False), built=built, solver=built is None)
    ch = Checker(inst)
    viol = []
    doms = inst.domains()
    trz = inst.traj('z')
    N, M = cfg.N, cfg.M
    mut = item.get('mut')

    def V(key, label, detail, pt=None):
        viol.append(describe_violation(inst, PROP, '%s|%s' % (key, cfg.method), label, detail, pt))

    # (a) gap-closing rows (MS) -------------------------------------------------------------
    if cfg.method == 'MS':
        refa = multi(inst, lambda tr: ref.gap_atoms(tr, mut=mut))
        impa = impl_atoms(inst)
        pairs, un_ref, un_impl = ch.match(refa, impa)
        for j in un_ref:
            V('gap-row-missing', refa['z'][j][2], 'no NLP row equals the reference gap residual X[k+1]-Phi^M(X[k]) (sign free)', inst.pts[0])
        mv = model_vars(inst, ch)
        for i in un_impl:
            vs = ch._vars(impa['z'][i][1])
            if vs & mv:
                V('extra-row', 'row %d' % impa['z'][i][2], 'NLP row outside the dynamics restricts model variables %s' % sorted(vs & mv)[:5], inst.pts[0])
    # (b) states on control / integrator grid ----------------------------------------------
    rec = multi(inst, lambda tr: ref.recursion(tr, from_named=(cfg.method == 'MS'), mut=mut))
    trs = {d: inst.traj(d) for d in doms}
    for k in range(N + 1):
        for i in range(spec.nx):
            if cfg.method == 'SS' and k > 0:
                ok = ch.prove('Xc[k=%d,i=%d]' % (k, i), {d: trs[d].X[k][i] for d in doms}, {d: rec[d][0][k][i] for d in doms})
                if not ok and ch.violations:
                    v = ch.violations.pop()
                    V('ss-recursion', v['label'], 'sampled control-grid state differs from the scheme recursion: %s' % v, inst.pts[v['point']] if v.get('point') is not None else v.get('model'))
    for j in range(N * M + 1):
        for i in range(spec.nx):
            ok = ch.prove('Xi[j=%d,i=%d]' % (j, i), {d: trs[d].Xi[j][i] for d in doms}, {d: rec[d][1][j][i] for d in doms})
            if not ok and ch.violations:
                v = ch.violations.pop()
                V('integrator-state', v['label'], 'sampled integrator-grid state differs from the scheme iterate: %s' % v, inst.pts[v['point']] if v.get('point') is not None else v.get('model'))
    # integrator times: M equal sub-steps
    for k in range(N):
        for j in range(M):
            def tij(tr, k=k, j=j):
                return tr.tc[k] + (tr.tc[k + 1] - tr.tc[k]) * tr.dom.const(Fr(j, M))
            ok = ch.prove('ti[k=%d,j=%d]' % (k, j), {d: trs[d].ti[k * M + j] for d in doms}, {d: tij(trs[d]) for d in doms})
            if not ok and ch.violations:
                v = ch.violations.pop()
                V('integrator-time', v['label'], 'integrator grid time is not the j-th of M equal sub-steps: %s' % v, inst.pts[v['point']] if v.get('point') is not None else v.get('model'))
    # (c) vacuity twin: a reference with the third RK stage time shifted must be told apart ------
    twins_ok = twins_bad = 0
    if not mut and cfg.method == 'MS' and cfg.intg == 'rk' and spec.ode is not None and time_dependent(spec) and item.get('twin', True):
        ch2 = Checker(inst, timeout_ms=10000)
        refm = multi(inst, lambda tr: ref.gap_atoms(tr, mut='c3'))
        _, un_ref2, _ = ch2.match(refm, impl_atoms(inst), far=False)
        from ..match import close as _close
        differs = any(not _close(a[1], b[1]) for a, b in zip(refm[0], refa[0]))      # the mutation really changes the reference here
        if un_ref2:
            twins_ok += 1
        elif differs:
            twins_bad += 1
        for k in ('unsat', 'sat', 'unknown', 'queries', 'solver_s'):
            ch.stats[k] = ch.stats.get(k, 0) + ch2.stats.get(k, 0)
    r = result(inst, ch, {'violations': viol, 'twins_ok': twins_ok, 'twins_bad': twins_bad,
                          'shape': '%s|nx%d nu%d|%s|%s' % (cfg.tag(), spec.nx, spec.nu, spec.t0[0] + '/' + spec.T[0], spec.note),
                          'sample': {'cfg': cfg.tag(), 'horizon': [spec.t0[0], spec.T[0]], 'model': repr(spec.ode or spec.nxt),
                                     'nlp_rows': inst.nlp.ng, 'nlp_vars': inst.nlp.nx, 'proved': len(ch.proved)}})
    if viol:
        r['status'] = 'violation'
    return r
