"""C08 Refined sampling and samplers interpolate the discrete solution consistently."""
import copy
import random
from fractions import Fraction as Fr

import casadi as ca

from .. import families as fam
from ..dsl import (Cfg, Spec, Sym, X, U, Pg, Vg, t, T, t0, nl1, nl2, at_tf, integral, ev)
from ..extract import quiet
from ..instance import Inst
from ..match import Checker, close
from ..sx2smt import emb, RZ, HarnessError
from ..ref.shooting import step, leaf_at
from ..ref import collocation as rco
from .common import describe_violation, result

PROP = 'C08'
LEVEL = 'other'
META = {
    'rule': 'instance = (model, method/scheme, N, M, grid, horizon kinds); refine r = d+2 where d is the scheme\'s polynomial degree (1 expl_euler, 4 rk, degree for collocation).  '
            'Obligations per integrator step, all proven for all decision vectors/parameters (markers uninterpreted): every r-th refined entry == integrator-grid entry, every M-th == control entry (times and values); '
            'refined times equally spaced in the step; (d+1)-th finite difference of the d+2 in-step samples == 0 (one polynomial of degree <= d); polynomial through the samples extrapolated to the step end == '
            'the scheme\'s propagated end state; exact differentiation stencil at the step start == ODE right-hand side there (explicit schemes); for collocation the polynomial evaluated at tau_j*h == helper state; '
            'sampler (with rockit.stage.low stubbed by the explored step index): value at d+1 in-step times == refined samples and d^(d+1)/dt^(d+1) == 0, so it is that same polynomial for every t of the step',
    'functions': ['rockit/stage.py:_grid_intg_fine/sampler/_grid_integrator/_grid_control', 'rockit/sampling_method.py:intg_rk/intg_expl_euler (poly_coeff)', 'rockit/direct_collocation.py:poly*S (poly_coeff)',
                  'rockit/multiple_shooting.py, single_shooting.py: poly_coeff bookkeeping'],
    'bounds': 'free or parametric horizon (numeric horizons: power-basis constants get folded into inexact doubles); MS/SS with rk and expl_euler, DC degree 1..4 radau/legendre; N<=3, M<=2 (thorough M<=3; SingleShooting: at most 2 integrator steps, z3 does not finish the nested terms of 3 steps within 60 s); uniform, geometric, user grids; refine = d+2 <= 6; declared quadrature states: shooting methods with rk / expl_euler, M in {2,3}',
    'outside': 'end-value/through-helper identities for collocation schemes with irrational tables (the power-basis coefficients rockit derives with numpy are rounded doubles, so the exact interpolation property holds only up to rounding; degree, sub-sampling and sampler identities are still checked there); "exact for polynomial true solutions" and convergence in M (consequences of C03, not re-proved); sampler on algebraic states; sol.sampler numeric wrapper; IEEE rounding',
    'assumptions': ['rockit.stage.low (interval lookup, not SX-expandable) is replaced by a stub returning the explored step index; the path condition grid[i] <= t < grid[i+1] is the stated scope of each sampler obligation',
                    'reals for floats', 'markers stand for arbitrary functions'],
    'explanation': 'bounded symbolic checking of interpolation identities on the real refined-sampling and sampler code, decided by z3',
}


def lag_weights(nodes, s):
    """Lagrange weights w_m with sum_m w_m y_m = P(s) for the polynomial through (nodes_m, y_m)"""
    out = []
    for m, nm in enumerate(nodes):
        w = Fr(1)
        for l, nl in enumerate(nodes):
            if l != m:
                w *= (s - nl) / (nm - nl)
        out.append(w)
    return out


def lag_dweights(nodes, s):
    """weights of P'(s)"""
    out = []
    for m, nm in enumerate(nodes):
        tot = Fr(0)
        for q, nq in enumerate(nodes):
            if q == m:
                continue
            term = Fr(1) / (nm - nq)
            for l, nl in enumerate(nodes):
                if l != m and l != q:
                    term *= (s - nl) / (nm - nl)
            tot += term
        out.append(tot)
    return out


def findiff_weights(n):
    """n-th forward difference weights"""
    from math import comb
    return [Fr((-1) ** (n - j) * comb(n, j)) for j in range(n + 1)]


def degree_of(cfg):
    if cfg.method == 'DC':
        return cfg.degree
    return 4 if cfg.intg == 'rk' else 1


def instances(tier, seed):
    rng = random.Random(seed + 8)
    items = []

    def add(**kw):
        items.append(dict(id='%s#%d' % (PROP, len(items)), **kw))
    H = fam.HORIZONS
    Hsym = [h for h in H if fam.horizon_symbolic(h)]
    grids = [fam.G_UNI, fam.G_GEO_LOC, 'fun']      # localized grids: z3 does not finish the cross-multiplied identities within 60 s
    n = 0
    cfgs = [('MS', 'rk', 0, ''), ('SS', 'rk', 0, ''), ('MS', 'expl_euler', 0, ''), ('SS', 'expl_euler', 0, ''),
            ('DC', None, 1, 'radau'), ('DC', None, 2, 'radau'), ('DC', None, 3, 'radau'), ('DC', None, 2, 'legendre'), ('DC', None, 4, 'radau'), ('DC', None, 1, 'legendre')]
    reps = 1 if tier == 'quick' else 6
    for rep in range(reps):
        for method, intg, degree, scheme in cfgs:
            N = [2, 3][n % 2] if tier == 'quick' else rng.choice([1, 2, 3])
            M = [1, 2][(n // 2) % 2] if tier == 'quick' else rng.choice([1, 2, 3])
            if method == 'DC' and fam.rational_tables(degree, scheme):
                M = 2       # exact interpolation identities are only available here: make sure sub-stepping is exercised
            if method == 'MS' and tier == 'quick':
                M = 2 if intg == 'rk' else 3      # the step-length inputs DT and DT_control of the one-step maps differ only for M > 1
            if method == 'SS':
                N, M = min(N, 2), min(M, 2) if N == 1 else 1      # SingleShooting terms nest: z3 needs minutes beyond 2 steps
            g = grids[(n + rep) % len(grids)]
            if g == 'fun':
                g = fam.G_FUN(N)
            # symbolic horizons only: with a numeric horizon CasADi folds (j*delta)^m * c/DT^m into doubles whose
            # exact cancellation in the interpolation identities is lost to rounding
            h = Hsym[(n + rep) % len(Hsym)]
            s = copy.deepcopy(fam.ode_core()[0])
            s.objective = [at_tf(X(0) * X(1))]
            add(spec=fam.with_horizon(s, h), cfg=Cfg(method, N=N, M=M, intg=intg or 'rk', grid=g, degree=degree or 4, scheme=scheme or 'radau'))
            n += 1
    # DAE under collocation with rational tables on a non-uniform grid: the algebraic interpolant
    for g in (fam.G_GEO_LOC, fam.G_UNI):
        s = copy.deepcopy(fam.dae_core()[0])
        s.objective = [at_tf(X(0) * X(1))]
        add(spec=fam.with_horizon(s, Hsym[0]), cfg=Cfg('DC', N=2, M=2, grid=g, degree=2, scheme='radau'))
    # several control symbols: the sampler serves the control VECTOR of the interval the time lies in
    for method, intg in (('MS', 'rk'), ('DC', None)):
        s = Spec(nx=2, nu=2, ode=[nl1(X(1)) * U(0) + t * X(0), X(0) - U(1) * X(1)], note='two controls')
        s.objective = [at_tf(X(0) * X(1))]
        add(spec=fam.with_horizon(s, Hsym[0]), cfg=Cfg(method, N=3, M=2, intg=intg or 'rk', grid=fam.G_UNI, degree=2, scheme='radau'))
    # a declared quadrature state with an integrand that varies inside the step: its dense output has coefficients of its own
    for method, intg, M_ in (('MS', 'rk', 2), ('MS', 'expl_euler', 2), ('SS', 'rk', 2), ('MS', 'rk', 3)):
        s = copy.deepcopy(fam.ode_core()[0])
        s.quads = [X(0) * X(1) + t * U(0)]
        s.objective = [at_tf(X(0) * X(1))]
        add(spec=fam.with_horizon(s, Hsym[0]), cfg=Cfg(method, N=1 if method == 'SS' else 2, M=M_, intg=intg, grid=fam.G_UNI))
    # SingleShooting with sub-steps (one control interval: the nesting stays shallow)
    for intg in ('rk', 'expl_euler'):
        s = copy.deepcopy(fam.ode_core()[0])
        s.objective = [at_tf(X(0) * X(1))]
        add(spec=fam.with_horizon(s, Hsym[0]), cfg=Cfg('SS', N=1, M=2, intg=intg, grid=fam.G_UNI))
    return items


def run(item):
    import rockit.stage as rstage
    spec, cfg = item['spec'], item['cfg']
    N, M = cfg.N, cfg.M
    d = degree_of(cfg)
    r = d + 2
    nx = spec.nx
    nsteps = N * M
    steps = sorted({0, nsteps - 1, nsteps // 2})
    plan = {}

    def extra(b):
        st = b.stage
        outs = []
        tr_, xr_ = st.sample(st.x, grid='integrator', refine=r)
        plan['tref'] = len(outs); outs.append(tr_)
        plan['xref'] = len(outs); outs.append(xr_)
        if spec.nz:
            plan['zref'] = len(outs); outs.append(st.sample(st.z, grid='integrator', refine=r)[1])
        if spec.quads and cfg.method != 'DC':
            # declared quadrature states: their own dense output (rockit keeps separate polynomial coefficients for them)
            qv = ca.vcat(b.qs)
            plan['qref'] = len(outs); outs.append(st.sample(qv, grid='integrator', refine=r)[1])
            plan['qint'] = len(outs); outs.append(st.sample(qv, grid='integrator')[1])
        # sampler with the interval lookup stubbed per explored step
        tsym = ca.MX.sym('tq')
        plan['sampler'] = {}
        ti_, _ = st.sample(st.x, grid='integrator')
        real_low = rstage.low
        try:
            for i in steps:
                def low_stub(grid_, t_, i=i):
                    # the interval is looked up for the query time itself (a shifted argument moves node times into the wrong interval)
                    if not ca.MX(t_).is_symbolic():
                        plan['low_argument'] = str(t_)
                    # casadi.low(v, t): index j with v[j] <= t < v[j+1], clamped to [0, len(v)-2].  Under the path condition
                    # "t lies in integrator step i" this is decided here for the control grid, the integrator grid and
                    # any leading part of the integrator grid; the clamping is reproduced faithfully
                    n_ = grid_.numel()
                    if n_ == N + 1 and M > 1:
                        j = i // M
                    elif n_ == N + 1 and M == 1:
                        j = i
                    elif n_ <= N * M + 1:
                        j = i
                    else:
                        raise HarnessError('low() called on an unexpected grid of %d entries' % n_)
                    return max(0, min(j, n_ - 2))
                rstage.low = low_stub
                F = st.sampler('s%d' % i, [st.x])
                h_i = (ti_[i + 1] - ti_[i])
                vals = [F(st.gist, ti_[i] + h_i * j / r) for j in range(d + 1)]
                plan['sampler'][i] = (len(outs), None)
                outs.append(ca.hcat(vals))
                e = F(st.gist, tsym)
                for _ in range(d + 1):
                    e = ca.jacobian(e, tsym)
                plan['sampler'][i] = (plan['sampler'][i][0], len(outs))
                outs.append(e)
                if spec.nu:
                    # an expression of the controls through the sampler: inside step i it is the control vector of interval i // M
                    Fu = st.sampler('su%d' % i, [ca.vcat([u_ * (j_ + 2) for j_, u_ in enumerate(b.us)])])
                    plan.setdefault('sampler_u', {})[i] = len(outs)
                    outs.append(Fu(st.gist, ti_[i] + h_i / r))
        finally:
            rstage.low = real_low
        return outs, [tsym]
    inst = Inst(spec, cfg, seed=item.get('seed', 0), extra_outputs=extra)
    trz_ = inst.traj('z')
    # every control interval has positive length (the interpolation formulas divide by the step)
    hyps = [emb(trz_.tc[k + 1]) - emb(trz_.tc[k]) > 0 for k in range(N)]
    ch = Checker(inst, hyps=hyps, timeout_ms=60000, budget_s=400)
    viol = []
    doms = inst.domains()
    ex = {dd: inst.view(dd)[5] for dd in doms}
    trs = {dd: inst.traj(dd) for dd in doms}

    def V(key, label, detail, pt=None):
        viol.append(describe_violation(inst, PROP, '%s|%s' % (key, cfg.tag().split(' grid')[0].split(' uniform')[0].split(' geometric')[0].split(' function')[0]), label, detail, pt))

    def P(key, label, a, b_):
        if not ch.prove(label, a, b_) and ch.violations:
            v = ch.violations.pop()
            V(key, label, '%s: %s' % (label, {k: v.get(k) for k in ('how', 'impl', 'ref')}), inst.pts[v['point']] if v.get('point') is not None else None)

    def wrapd(dd, v):
        return inst.rdom.wrap(v) if dd == 'z' else v
    tref = {dd: [wrapd(dd, v) for v in ex[dd][plan['tref']]] for dd in doms}
    xref = {dd: [wrapd(dd, v) for v in ex[dd][plan['xref']]] for dd in doms}      # column-major nx x (nsteps*r+1)
    # SMT side as rational functions n/d: the power-basis formulas divide by the step length, and the identities below
    # need x/DT*DT to cancel (polynomial identity after cross-multiplication; denominators > 0 by hypothesis)
    fq = inst.frac_extra()
    xref['z'] = list(fq[plan['xref']])
    cst = {dd: trs[dd].dom.const for dd in doms}

    def xr(dd, n_, s):
        return xref[dd][n_ * nx + s]
    # 1. coarse grids are sub-sampled exactly
    for i in range(nsteps + 1):
        P('subsample-time', 'tref[%d*r]==ti[%d]' % (i, i), {dd: tref[dd][i * r] for dd in doms}, {dd: trs[dd].ti[i] for dd in doms})
        if i == nsteps:
            continue    # the final entry is the last step's polynomial at its end: equals X[N] only where the dynamics hold (checked below as end value)
        for s in range(nx):
            P('subsample-value', 'xref[%d*r][%d]==Xi[%d]' % (i, s, i), {dd: xr(dd, i * r, s) for dd in doms}, {dd: trs[dd].Xi[i][s] for dd in doms})
    for k in range(N + 1):
        P('subsample-time', 'ti[%d*M]==tc[%d]' % (k, k), {dd: trs[dd].ti[k * M] for dd in doms}, {dd: trs[dd].tc[k] for dd in doms})
        for s in range(nx):
            P('subsample-value', 'Xi[%d*M][%d]==X[%d]' % (k, s, k), {dd: trs[dd].Xi[k * M][s] for dd in doms}, {dd: trs[dd].X[k][s] for dd in doms})
    tb = rco.Tables(cfg.degree, cfg.scheme) if cfg.method == 'DC' else None
    nodes = [Fr(j) for j in range(d + 1)]
    w_end = lag_weights(nodes, Fr(r))
    w_slope = lag_dweights(nodes, Fr(0))
    w_fd = findiff_weights(d + 1)
    for i in range(nsteps):
        k = i // M
        # refined times equally spaced
        for j in range(r):
            P('refined-time', 'tref[%d,%d]' % (i, j), {dd: tref[dd][i * r + j] for dd in doms},
              {dd: trs[dd].ti[i] + (trs[dd].ti[i + 1] - trs[dd].ti[i]) * cst[dd](Fr(j, r)) for dd in doms})
        for s in range(nx):
            ys = {dd: [xr(dd, i * r + j, s) for j in range(r)] for dd in doms}      # j = 0..d+1, all inside step i
            # 2. one polynomial of degree <= d
            P('degree', 'findiff^%d[step %d,%d]' % (d + 1, i, s), {dd: sum((ys[dd][j] * cst[dd](w_fd[j]) for j in range(1, d + 2)), ys[dd][0] * cst[dd](w_fd[0])) for dd in doms},
              {dd: cst[dd](0) for dd in doms})
            # 3. end value of the step polynomial == propagated end state of the scheme
            def endstate(dd):
                tr = trs[dd]
                h = (tr.tc[k + 1] - tr.tc[k]) / tr.dom.const(M)
                if cfg.method == 'DC':
                    xs, xn, xrr, zr, ts, hh = rco.interval_data(tr, k, i % M)
                    nodes_x = [xs] + xrr
                    return sum((nodes_x[q][s] * tr.dom.const(tb.D[q]) for q in range(1, cfg.degree + 1)), nodes_x[0][s] * tr.dom.const(tb.D[0]))
                xn, _ = step(tr, k, tr.Xi[i], tr.ti[i], h, cfg.intg)
                return xn[s]
            exact_tables = cfg.method != 'DC' or fam.rational_tables(cfg.degree, cfg.scheme)
            if exact_tables:
              P('end-value', 'P(h)[step %d,%d]' % (i, s), {dd: sum((ys[dd][j] * cst[dd](w_end[j]) for j in range(1, d + 1)), ys[dd][0] * cst[dd](w_end[0])) for dd in doms},
                {dd: endstate(dd) for dd in doms})
            if i == nsteps - 1 and exact_tables:
                P('final-entry', 'xref[last][%d]==propagated end state' % s, {dd: xr(dd, nsteps * r, s) for dd in doms}, {dd: endstate(dd) for dd in doms})
            # 4. initial slope == f(x_i, t_i)  (explicit schemes)
            if cfg.method != 'DC':
                def slope(dd):
                    tr = trs[dd]
                    h = (tr.tc[k + 1] - tr.tc[k]) / tr.dom.const(M)
                    lf = leaf_at(tr, k, tr.Xi[i], tr.ti[i], h)
                    return ev(spec.ode[s], lf, tr.dom) * h / tr.dom.const(r)
                P('initial-slope', "P'(0)*delta[step %d,%d]" % (i, s), {dd: sum((ys[dd][j] * cst[dd](w_slope[j]) for j in range(1, d + 1)), ys[dd][0] * cst[dd](w_slope[0])) for dd in doms},
                  {dd: slope(dd) for dd in doms})
            else:
                # 5. passes through the helper states at the collocation times
                for j in range(cfg.degree if exact_tables else 0):
                    w_tau = lag_weights(nodes, tb.tau[j] * r)
                    P('through-helper', 'P(tau_%d h)[step %d,%d]' % (j, i, s), {dd: sum((ys[dd][m] * cst[dd](w_tau[m]) for m in range(1, d + 1)), ys[dd][0] * cst[dd](w_tau[0])) for dd in doms},
                      {dd: trs[dd].Xr[i * cfg.degree + j][s] for dd in doms})
    # 5c. declared quadrature states (shooting methods): the refined samples of q lie on ONE polynomial of degree <= d per step, which starts at the
    # value reported on the integrator grid, has the integrand as initial slope and ends at the next integrator-grid value (the scheme's quadrature)
    if 'qref' in plan:
        nq = len(spec.quads)
        qref = {dd: ([wrapd(dd, v) for v in ex[dd][plan['qref']]] if dd != 'z' else list(fq[plan['qref']])) for dd in doms}
        qint = {dd: ([wrapd(dd, v) for v in ex[dd][plan['qint']]] if dd != 'z' else list(fq[plan['qint']])) for dd in doms}
        for i in range(nsteps):
            k = i // M
            for a_ in range(nq):
                ys = {dd: [qref[dd][(i * r + j) * nq + a_] for j in range(r)] for dd in doms}
                P('quad-subsample', 'qref[%d*r][%d]==q_integrator[%d]' % (i, a_, i), {dd: ys[dd][0] for dd in doms}, {dd: qint[dd][i * nq + a_] for dd in doms})
                P('quad-degree', 'findiff^%d q[step %d,%d]' % (d + 1, i, a_), {dd: sum((ys[dd][j] * cst[dd](w_fd[j]) for j in range(1, d + 2)), ys[dd][0] * cst[dd](w_fd[0])) for dd in doms},
                  {dd: cst[dd](0) for dd in doms})

                def qend(dd):
                    tr = trs[dd]
                    h = (tr.tc[k + 1] - tr.tc[k]) / tr.dom.const(M)
                    _, qn = step(tr, k, tr.Xi[i], tr.ti[i], h, cfg.intg, quads=spec.quads)
                    return qint[dd][i * nq + a_] + qn[a_]
                P('quad-end-value', 'Pq(h)[step %d,%d]' % (i, a_), {dd: sum((ys[dd][j] * cst[dd](w_end[j]) for j in range(1, d + 1)), ys[dd][0] * cst[dd](w_end[0])) for dd in doms},
                  {dd: qend(dd) for dd in doms})
                P('quad-next-node', 'q_integrator[%d][%d] == q_integrator[%d] + quadrature of step %d' % (i + 1, a_, i, i), {dd: qint[dd][(i + 1) * nq + a_] for dd in doms}, {dd: qend(dd) for dd in doms})
                if i == nsteps - 1:
                    P('quad-final-entry', 'qref[last][%d]==q at the final node' % a_, {dd: qref[dd][nsteps * r * nq + a_] for dd in doms}, {dd: qend(dd) for dd in doms})

                def qslope(dd):
                    tr = trs[dd]
                    h = (tr.tc[k + 1] - tr.tc[k]) / tr.dom.const(M)
                    lf = leaf_at(tr, k, tr.Xi[i], tr.ti[i], h)
                    return ev(spec.quads[a_], lf, tr.dom) * h / tr.dom.const(r)
                P('quad-initial-slope', "Pq'(0)*delta[step %d,%d]" % (i, a_), {dd: sum((ys[dd][j] * cst[dd](w_slope[j]) for j in range(1, d + 1)), ys[dd][0] * cst[dd](w_slope[0])) for dd in doms},
                  {dd: qslope(dd) for dd in doms})
    # 5b. algebraic variables: the refined samples lie on the polynomial (degree d-1) through the collocation values
    if spec.nz and cfg.method == 'DC' and fam.rational_tables(cfg.degree, cfg.scheme) and 'zref' in plan:
        zref = {dd: ([wrapd(dd, v) for v in ex[dd][plan['zref']]] if dd != 'z' else list(fq[plan['zref']])) for dd in doms}
        dgr = cfg.degree
        for i in range(nsteps):
            for j in range(r):
                wz = lag_weights(tb.tau, Fr(j, r))
                for a_ in range(spec.nz):
                    P('z-through-roots', 'zref[step %d,%d][%d] == interpolant of the collocation values' % (i, j, a_),
                      {dd: zref[dd][(i * r + j) * spec.nz + a_] for dd in doms},
                      {dd: sum((trs[dd].Zr[i * dgr + q][a_] * cst[dd](wz[q]) for q in range(1, dgr)), trs[dd].Zr[i * dgr][a_] * cst[dd](wz[0])) for dd in doms})
    # twin (vacuity): the end-value identity must tell apart a propagation over twice the step
    twins_ok = twins_bad = 0
    if cfg.method != 'DC':
        tr = trs[0]
        h = (tr.tc[1] - tr.tc[0]) / M
        xn2, _ = step(tr, 0, tr.Xi[0], tr.ti[0], 2 * h, cfg.intg)
        ys0 = [xr(0, j, 0) for j in range(r)]
        pend = sum(ys0[j] * float(w_end[j]) for j in range(d + 1))
        if not close(pend, xn2[0]):
            twins_ok += 1
        else:
            twins_bad += 1
    # 6. sampler == the same polynomial on the explored steps
    for i, (iv, idr) in plan['sampler'].items():
        for j in range(d + 1):
            for s in range(nx):
                P('sampler-value', 'sampler(t_%d+%d*delta)[%d]' % (i, j, s), {dd: (fq[iv][j * nx + s] if dd == 'z' else ex[dd][iv][j * nx + s]) for dd in doms}, {dd: xr(dd, i * r + j, s) for dd in doms})
        for s in range(nx):
            P('sampler-degree', 'd^%d sampler/dt^%d [step %d,%d]' % (d + 1, d + 1, i, s), {dd: (fq[idr][s] if dd == 'z' else ex[dd][idr][s]) for dd in doms}, {dd: cst[dd](0) for dd in doms})
    if plan.get('low_argument'):
        V('sampler-lookup-argument', 'low(grid, .)', 'the sampler looks up the interval of %s instead of the query time t: a time exactly on a grid node falls into the wrong interval (controls / algebraic values of the previous interval)' % plan['low_argument'])
    else:
        ch.proved.append('sampler looks up the interval of the query time itself')
    for i, iu in plan.get('sampler_u', {}).items():
        for j_ in range(spec.nu):
            P('sampler-control', 'sampler(%d*u%d)(t in step %d)' % (j_ + 2, j_, i), {dd: (fq[iu][j_] if dd == 'z' else ex[dd][iu][j_]) for dd in doms},
              {dd: trs[dd].U[i // M][j_] * cst[dd](j_ + 2) for dd in doms})
    res = result(inst, ch, {'violations': viol, 'twins_ok': twins_ok, 'twins_bad': twins_bad, 'shape': '%s|%s' % (cfg.tag(), spec.t0[0] + '/' + spec.T[0]),
                            'sample': {'cfg': cfg.tag(), 'degree': d, 'refine': r, 'steps_with_sampler': steps, 'proved': len(ch.proved)}})
    if viol:
        res['status'] = 'violation'
    return res
