"""C11 A free-time problem is the fixed-time problem with T (t0) as a decision variable."""
import copy
import random
from fractions import Fraction as Fr

import casadi as ca

from .. import families as fam
from ..dsl import (Cfg, Sym, Con, X, U, Pg, Vg, t, T, t0, tf, nl1, nl2, at_t0, at_tf, integral, sum_, C)
from ..instance import Inst, NPTS
from ..match import Checker, close
from ..sx2smt import emb
from ..ref.semantics import Ref
from .common import multi, impl_atoms, describe_violation, result, compare_nlps, bind_positional

PROP = 'C11'
LEVEL = 'translation_validation'
META = {
    'rule': 'instance = (model with objective/constraints mentioning T,t0,tf,t; which of T/t0 is free; value c; method, N, M, grid).  Two real transcriptions: '
            'A = free-time OCP with the horizon variable bound to the rational c at translation time, B = the same OCP declared with the number c; the complete row '
            'multisets and objectives must coincide for all values of the remaining variables; A must carry exactly one extra row T>=0; value(T|t0|tf) are the variables; '
            'starting value = guess (ground).  non-trivial = matched row depending on variables; distinct by (shape,label)',
    'functions': ['rockit/direct_method.py:fill_placeholders_T/t0', 'rockit/stage.py:set_T/set_t0/T/t0/tf/value', 'rockit/sampling_method.py:add_variables_V (self.T,self.t0), time grid construction, set_initial special-casing of T/t0',
                  'rockit/freetime.py'],
    'bounds': '{T free, t0 free, both} x {MS, SS (rk, expl_euler), DC radau<=2 / legendre 1} x uniform, local geometric, user rational grids, localized and FreeGrid; N<=3, M<=2 (thorough N<=4, M<=3); '
              'c in {2, 3/2, 1/2}; all real values of the other variables',
    'outside': 'irrational tables/partitions in the relational comparison (the fixed-time side folds them into doubles; covered by C01/C02/C04 with symbolic T); IEEE rounding',
    'assumptions': ['variables of A and B correspond by creation order once the horizon variables are removed (same declaring code)', 'reals for floats; constants identified up to 1e-10'],
}


def models():
    out = []
    s = copy.deepcopy(fam.ode_core()[0])
    s.objective = [T * 2 + at_tf(X(0) * X(0)), integral(X(0) * U(0) + t)]
    s.cons = [Con('<=', X(0), 3 + t), Con('==', at_t0(X(0)), t0 + 1), Con('<=', at_tf(X(1)), tf), Con('<=<=', -1, 1, mid=U(0))]
    out.append(s)
    s = copy.deepcopy(fam.ode_core()[1])
    s.objective = [tf + sum_(Vg('vc') * Vg('vc')), Vg('w') * T]
    s.cons = [Con('>=', X(1) * T, -2), Con('==', Vg('w'), at_tf(X(0)))]
    out.append(s)
    s = copy.deepcopy(fam.diffeq_core()[0])
    s.objective = [at_tf(X(0)) + T]
    s.cons = [Con('<=', X(0), 5)]
    out.append(s)
    return out


def instances(tier, seed):
    rng = random.Random(seed + 11)
    items = []

    def add(**kw):
        items.append(dict(id='%s#%d' % (PROP, len(items)), **kw))
    grids = [fam.G_UNI, fam.G_GEO_LOC, fam.G_UNI_LT, 'fun', fam.G_FREE, fam.G_UNI_LT0]
    frees = [('T',), ('t0',), ('T', 't0')]
    cs = [Fr(2), Fr(3, 2), Fr(1, 2)]
    n = 0
    reps = 1 if tier == 'quick' else 6
    for rep in range(reps):
        for method, intg in (('MS', 'rk'), ('SS', 'rk'), ('DC', None), ('MS', 'expl_euler'), ('SS', 'expl_euler')):
            for mi, s in enumerate(models()):
                if s.nxt is not None and method == 'DC':
                    continue
                free = frees[n % 3]
                N = [2, 3][n % 2] if tier == 'quick' else rng.choice([1, 2, 3, 4])
                M = [1, 2][(n // 2) % 2] if tier == 'quick' else rng.choice([1, 2, 3])
                g = grids[n % len(grids)]
                if g == 'fun':
                    g = fam.G_FUN(N)
                degree, scheme = [(2, 'radau'), (1, 'legendre'), (1, 'radau')][n % 3]
                add(spec=s, cfg=Cfg(method, N=N, M=M, intg=intg or 'rk', grid=g, degree=degree, scheme=scheme), free=free,
                    cT=cs[n % 3], ct0=cs[(n + 1) % 3], guess=Fr(7, 4), via_set_initial=(n % 2 == 1))
                n += 1
    # t0 and T declared through ONE FreeTime object (same guess): still two decision variables
    for mi, (method, intg) in enumerate((('MS', 'rk'), ('DC', None))):
        add(spec=models()[0], cfg=Cfg(method, N=2, M=[2, 1][mi], intg=intg or 'rk', grid=[fam.G_UNI, fam.G_UNI_LT][mi], degree=2, scheme='radau'), free=frees[2] if len(frees[2]) == 2 else [f_ for f_ in frees if len(f_) == 2][0],
            cT=Fr(3, 2), ct0=Fr(3, 2), guess=Fr(7, 4), shared_freetime=True)
    # seeded random problems (model, constraint set, objective): the relational comparison needs no reference semantics
    from .. import randspec
    rr = random.Random(seed * 7919 + 1111)
    for ri in range(4 if tier == 'quick' else 80):
        method, intg = rr.choice([('MS', 'rk'), ('SS', 'rk'), ('DC', None), ('MS', 'expl_euler'), ('DC', None)])
        s = fam.random_dae(rr) if (method == 'DC' and rr.random() < 0.4) else (fam.random_diffeq(rr) if (method != 'DC' and rr.random() < 0.2) else fam.random_ode(rr))
        N = rr.choice([1, 2, 3])
        M = rr.choice([1, 2]) if method != 'SS' else 1
        s.T = ('num', Fr(1))       # generated with a numeric horizon: T, t0, tf appear inside bodies, but no constraint is on the horizon alone
        s.t0 = ('num', Fr(1, 2))   # (that would be a decision-free constraint in the fixed-time problem)
        s.cons = randspec.random_constraints(rr, s, method, M)
        s.objective = randspec.random_objective(rr, s, method)
        g = rr.choice(grids)
        if g == 'fun':
            g = fam.G_FUN(N)
        degree, scheme = rr.choice([(2, 'radau'), (1, 'legendre'), (1, 'radau')])
        add(spec=s, cfg=Cfg(method, N=N, M=M, intg='rk' if s.nxt is not None else (intg or 'rk'), grid=g, degree=degree, scheme=scheme), free=rr.choice(frees),
            cT=rr.choice(cs), ct0=rr.choice(cs + [Fr(-1, 2)]), guess=Fr(7, 4), soft=True, family='random')
    return items


def run(item):
    spec0, cfg = item['spec'], item['cfg']
    free = item['free']
    cT, ct0 = item['cT'], item['ct0']
    sA = copy.deepcopy(spec0)
    sB = copy.deepcopy(spec0)
    # guesses equal to the fixed values so that the two starting points are comparable
    sA.T = ('free', cT) if 'T' in free else ('num', cT)
    sA.t0 = ('free', ct0) if 't0' in free else ('num', ct0)
    guess = {'T': cT, 't0': ct0}
    if item.get('via_set_initial'):
        # the guess arrives through set_initial(ocp.T / ocp.t0, .) and overrides the one FreeTime() was declared with
        from ..dsl import T as T_, t0 as t0_
        if 'T' in free:
            sA.T = ('free', cT + Fr(5, 4))
            sA.initial = list(sA.initial) + [(T_, cT)]
        if 't0' in free:
            sA.t0 = ('free', ct0 - Fr(3, 4))
            sA.initial = list(sA.initial) + [(t0_, ct0)]
    if item.get('shared_freetime'):
        sA.shared_freetime = True
    sB.T = ('num', cT)
    sB.t0 = ('num', ct0)
    # A0: free-time problem on fresh variables (to learn which variables are the horizon)
    A0 = Inst(sA, cfg, seed=item.get('seed', 0), extra_outputs=lambda b: [b.ocp.value(b.ocp.tf)])
    z3 = A0.z3
    ch = Checker(A0)
    viol = []

    def V(key, label, detail, pt=None):
        viol.append(describe_violation(A0, PROP, '%s|%s|free=%s' % (key, cfg.method, '+'.join(free)), label, detail, pt))
    trz = A0.traj('z')
    hv = {}
    for name, term in (('T', trz.T), ('t0', trz.t0)):
        if name in free:
            e = z3.simplify(emb(term))
            if not (z3.is_const(e) and e.decl().kind() == z3.Z3_OP_UNINTERPRETED):
                V('horizon-not-variable', name, 'value(ocp.%s) of a FreeTime horizon is not a plain decision variable: %s' % (name, e))
                continue
            hv[name] = [i for i, v in enumerate(A0.xv) if z3.eq(v, e)][0]
            ch.proved.append('value(%s) is a decision variable' % name)
            ch.nontrivial.add('value(%s) is a decision variable' % name)
    if len(hv) == 2 and hv['T'] == hv['t0']:
        V('horizon-variables-aliased', 't0/T', 'value(ocp.t0) and value(ocp.T) of the free-time problem are one and the same decision variable (%s)' % A0.xv[hv['T']])
    elif len(hv) == 2:
        ch.proved.append('t0 and T are distinct decision variables')
    # value(tf) == value(t0)+value(T)
    doms = A0.domains()
    trs = {d: A0.traj(d) for d in doms}
    if not ch.prove('value(tf)==value(t0)+value(T)', {d: A0.view(d)[5][0][0] for d in doms}, {d: trs[d].t0 + trs[d].T for d in doms}) and ch.violations:
        v = ch.violations.pop()
        V('tf', 'tf', 'value(ocp.tf) is not t0+T: %s' % {k: v.get(k) for k in ('how', 'impl', 'ref')})
    # starting value of the horizon variable = guess (ground)
    x0 = A0.nlp.x0()
    for name, idx in hv.items():
        if not close(float(x0[idx]), float(guess[name])):
            V('horizon-guess', name, 'starting value of free %s is %r, FreeTime guess was %r' % (name, float(x0[idx]), float(guess[name])))
        else:
            ch.proved.append('x0[%s]==guess' % name)
    # extra row: exactly T>=0 among rows that only mention horizon variables
    if len(hv) == len(free):
        hnames = {str(A0.xv[i]) for i in hv.values()}
        only_h = [(k, t_) for k, t_, r in A0.atoms('z') if ch._vars(t_) and ch._vars(t_) <= hnames]
        want = 1 if 'T' in free else 0
        grid_free = cfg.grid[0] == 'free' or cfg.grid[1].get('localize_T') or cfg.grid[1].get('localize_t0')
        if not grid_free and item.get('family') != 'random':       # (random models may have states that are functions of T alone)
            # every row that mentions the horizon alone must BE the condition T >= 0 (grid classes with a minimal interval length add
            # positive multiples of it: same feasible set); decided by the solver in both directions
            extra_h = []
            for k, t_ in only_h:
                if 'T' not in free:
                    extra_h.append((k, t_))
                    continue
                Tv_ = A0.xv[hv['T']]
                same = k == 'le'
                for hyp in ((Tv_ >= 0, emb(t_) > 0), (emb(t_) <= 0, Tv_ < 0)):
                    if not same:
                        break
                    ch.s.push()
                    ch.s.add(*hyp)
                    same = str(ch.s.check()) == 'unsat'
                    ch.s.pop()
                    ch.stats['queries'] += 1
                if not same:
                    extra_h.append((k, t_))
            if extra_h or len(only_h) < want:
                V('horizon-rows', 'rows on horizon only', 'rows mentioning only the horizon variables must be equivalent to T>=0 (%d expected at least); found %d, not equivalent: %s' % (want, len(only_h), extra_h[:3]))
        if 'T' in free:
            Tv = A0.xv[hv['T']]
            ok = any(k == 'le' and str(ch.neq(t_, 0 - Tv)[0]) == 'unsat' for k, t_ in only_h) if only_h else False
            if not grid_free:
                if ok:
                    ch.proved.append('T>=0 row present')
                else:
                    V('T>=0-missing', 'T>=0', 'no row -T<=0 for the free horizon')
        # A: same free-time transcription with the horizon variables bound to the numbers (at translation time)
        def bindA(nlp, like):
            out = {}
            for d in like.domains():
                if d == 'z':
                    xs = list(like.xv)
                    ps = list(like.pv)
                    if 'T' in hv:
                        xs[hv['T']] = z3.RealVal(str(cT))
                    if 't0' in hv:
                        xs[hv['t0']] = z3.RealVal(str(ct0))
                else:
                    xs = list(like.pts[d][0])
                    ps = list(like.pts[d][1])
                    if 'T' in hv:
                        xs[hv['T']] = float(cT)
                    if 't0' in hv:
                        xs[hv['t0']] = float(ct0)
                out[d] = (xs, ps)
            return out
        A = Inst(sA, cfg, seed=item.get('seed', 0), like=A0, bind=bindA, built=A0.b)
        B = Inst(sB, cfg, seed=item.get('seed', 0), like=A0, bind=bind_positional(skip=set(hv.values())))
        diffs, npairs = compare_nlps(ch, A, B, 'free(T:=c)', 'fixed')
        for key, label, detail in diffs:
            V(key, label, detail, A0.pts[0])
        # starting points agree on the shared variables (ground)
        xa = [v for i, v in enumerate(A0.nlp.x0()) if i not in set(hv.values())]
        xb = list(B.nlp.x0())
        if len(xa) == len(xb) and not all(close(float(a), float(b)) for a, b in zip(xa, xb)):
            V('x0-differs', 'x0', 'starting points of the free- and fixed-time problems differ on shared variables')
    twins_ok = twins_bad = 0
    if len(hv) == len(free) and item.get('twin', True) and 'T' in free:
        # vacuity guard: the fixed-time problem with another horizon must be told apart
        sW = copy.deepcopy(sB)
        sW.T = ('num', cT + 1)
        ch2 = Checker(A0, timeout_ms=5000)
        W = Inst(sW, cfg, seed=item.get('seed', 0), like=A0, bind=bind_positional(skip=set(hv.values())))
        d2, _ = compare_nlps(ch2, A, W, 'free', 'wrong')
        if d2:
            twins_ok += 1
        else:
            twins_bad += 1
    r = result(A0, ch, {'violations': viol, 'twins_ok': twins_ok, 'twins_bad': twins_bad,
                        'shape': '%s|free=%s|%s' % (cfg.tag(), '+'.join(free), spec0.note),
                        'sample': {'cfg': cfg.tag(), 'free': list(free), 'c_T': str(cT), 'c_t0': str(ct0), 'objective': repr(spec0.objective),
                                   'rows_free': A0.nlp.ng, 'proved': len(ch.proved)}})
    if viol:
        r['status'] = 'violation'
    return r
