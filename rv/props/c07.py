"""C07 Sampling commutes with expression evaluation on every grid."""
import copy
import random
from fractions import Fraction as Fr

import casadi as ca
import numpy as np

from .. import families as fam
from ..dsl import (Cfg, Spec, Sym, Con, E, X, U, Z, Q, Pg, Vg, t, T, t0, tf, DT, DTc, nl1, nl2, at_t0, at_tf, integral, sum_, C, ev, leaves)
from ..extract import quiet
from ..instance import Inst
from ..match import Checker, close
from ..sx2smt import emb, RZ
from ..ref.semantics import Ref
from ..ref.shooting import propagate
from ..ref import collocation as rco
from .common import describe_violation, result

PROP = 'C07'
LEVEL = 'other'
META = {
    'rule': 'instance = (model with parameters/variables/quadrature state/(algebraic), method, N, M, grid, horizon kinds).  For each test expression e (scalar, column, row, matrix) and each grid G in '
            '{control, control-, integrator, integrator+refine, integrator_roots}: homomorphism sample(e,G)[i] == e(sample(leaf,G)[i] for every leaf of e) proven for all values (z3); anchors: sampled primitives '
            '(u, per-interval p/v, t, DT, DT_control, quadrature state) equal the reference trajectory quantity of the enclosing interval / node; value(e) == e(values); '
            'layout: numeric sol.sample/DM2numpy array entry [i,r,c] equals element (r,c) at time i of the symbolic sample evaluated at the same decision vector (ground).  distinct by (shape,label)',
    'functions': ['rockit/stage.py:sample/_sample/_parse_grid/_grid_control/_grid_integrator/_grid_integrator_roots/_grid_intg_fine/value', 'rockit/sampling_method.py:eval_at_control/eval_at_integrator/eval_at_integrator_root/eval',
                  'rockit/solution.py:OcpSolution.sample/value', 'rockit/casadi_helpers.py:DM2numpy', 'rockit/placeholders.py:TranscribedPlaceholders.__call__'],
    'bounds': 'expression shapes 1x1, 2x1, 1x2, 2x2; leaves x,u,z,t,T,t0,DT,DT_control,p,v of every grid kind, quadrature state; refine in {2,3}; N<=3, M<=2; MS/SS/DC; all real values',
    'outside': "grid='gist' (defined for SplineMethod only); sol(stage) on multi-stage problems; the solver's own output vector; IEEE rounding",
    'assumptions': ['reals for floats', 'markers stand for arbitrary functions', 'numeric layout check uses a decision vector of distinct values instead of a solver run (solve_limited output is just another vector)'],
    'explanation': 'bounded symbolic checking of the read-back map: identities between real sample() expressions decided by z3 over all decision vectors; array layout is a ground comparison',
}


def model(dae=False):
    if dae:
        s = copy.deepcopy(fam.dae_core()[0])
    else:
        s = Spec(nx=2, nu=1, ode=[nl1(X(1)) * U(0) + t * X(0), nl2(X(0), Pg('a')) - X(1) * Pg('pc') + Vg('vc')],
                 params=[Sym('a', value=2), Sym('pc', 'control', value=3), Sym('pp', 'control+', value=Fr(1, 2))],
                 vars=[Sym('w'), Sym('vc', 'control'), Sym('vp', 'control+')])
    s.quads = [X(0) * X(0) + t]
    s.objective = [at_tf(Q(0))]
    return s


def random_exprs(spec, seed):
    """seeded random expression matrices over every kind of ingredient the property lists"""
    rng = random.Random(seed)
    lv = [X(i) for i in range(spec.nx)] + [U(i) for i in range(spec.nu)] + [Z(i) for i in range(spec.nz)] + [t, t, T, t0]
    lv += [Pg(p.name) for p in spec.params if p.n == 1 and p.name not in ('pt0', 'pT')] + [Vg(v.name) for v in spec.vars]
    out = []
    for name, (r_, c_) in (('rscalar', (1, 1)), ('rcol', (3, 1)), ('rrow', (1, 2)), ('rmat', (2, 2))):
        out.append((name, [[fam.rexpr(rng, lv, depth=2) for _ in range(c_)] for _ in range(r_)]))
    out.append(('quad', [[Q(0) + X(0)]]))
    return out


def test_exprs(spec, seed=None):
    if seed is not None:
        return random_exprs(spec, seed)
    x0, x1 = X(0), X(1)
    u = U(0)
    out = []
    if spec.nz:
        out.append(('scalar+z', [[Z(0) * x0 + t]]))
        out.append(('col', [[x0], [x1 * Pg('a') + u]]))
        out.append(('mat', [[x0, t], [u * x1, Pg('pc')]]))
    else:
        out.append(('scalar', [[x0 * u + t * Pg('a')]]))
        out.append(('col', [[x0], [x1 * Pg('pc') + Vg('w')]]))
        out.append(('row', [[t + t0, u * Vg('vc')]]))
        out.append(('mat', [[x0, t * T], [u * x1, Pg('pp') + Vg('vp')]]))
        out.append(('nl+DT', [[nl1(x1) * Vg('vc') + DTc + DT * x0]]))
    out.append(('quad', [[Q(0) + x0]]))
    return out


GRIDS = [('control', {}), ('integrator-', {}), ('control-', {}), ('-control', {}), ('-control-', {}), ('integrator', {}), ('integrator', {'refine': 2}), ('integrator', {'refine': 3}), ('integrator_roots', {})]      # (refine on grid='control' is honoured by SplineMethod only: C17)


def instances(tier, seed):
    rng = random.Random(seed + 7)
    items = []

    def add(**kw):
        items.append(dict(id='%s#%d' % (PROP, len(items)), **kw))
    H = fam.HORIZONS
    Hsym = [h for h in H if fam.horizon_symbolic(h)]
    grids = [fam.G_UNI, fam.G_GEO_LOC, fam.G_UNI_LT, 'fun']
    n = 0
    reps = 1 if tier == 'quick' else 6
    for rep in range(reps):
        for method, intg, dae in (('MS', 'rk', False), ('SS', 'rk', False), ('DC', None, False), ('DC', None, True), ('MS', 'expl_euler', False), ('SS', 'expl_euler', False)):
            N = [2, 3][n % 2] if tier == 'quick' else rng.choice([1, 2, 3])
            M = [2, 1][n % 2] if tier == 'quick' else rng.choice([1, 2])
            if dae:
                M = 2       # algebraic values on the integrator grid differ per sub-step only for M>1
            g = grids[n % len(grids)]
            if g == 'fun':
                g = fam.G_FUN(N)
            h = H[n % len(H)]
            degree, scheme = [(2, 'radau'), (3, 'radau'), (2, 'legendre')][n % 3]
            if method == 'DC' and not fam.rational_tables(degree, scheme) and not fam.horizon_symbolic(h):
                h = Hsym[n % len(Hsym)]
            add(spec=fam.with_horizon(model(dae), h), cfg=Cfg(method, N=N, M=M, intg=intg or 'rk', grid=g, degree=degree, scheme=scheme))
            if tier != 'quick' or n % 3 == 0:
                add(spec=fam.with_horizon(model(dae), h), cfg=Cfg(method, N=N, M=M, intg=intg or 'rk', grid=g, degree=degree, scheme=scheme),
                    exprs_seed=seed * 1000 + 7 * n + 1, soft=True, family='random')
            n += 1
    # DAE under collocation points that do NOT include the end of the step (legendre): the algebraic value at the final node is the
    # last step's polynomial extrapolated to the end of the step
    add(spec=fam.with_horizon(model(True), Hsym[0]), cfg=Cfg('DC', N=2, M=2, grid=fam.G_UNI, degree=2, scheme='legendre'))
    add(spec=fam.with_horizon(model(True), Hsym[1 % len(Hsym)]), cfg=Cfg('DC', N=2, M=1, grid=fam.G_GEO_LOC, degree=3, scheme='legendre'))
    # one-point grids: N=1 ('control-', '-control': one point) and N=2 ('-control-': one point); the numeric read-back keeps its time index
    for mi, (method, intg, N_) in enumerate((('MS', 'rk', 1), ('DC', None, 1), ('SS', 'rk', 2), ('DC', None, 2))):
        add(spec=fam.with_horizon(model(False), H[mi % len(H)] if method != 'DC' else Hsym[mi % len(Hsym)]),
            cfg=Cfg(method, N=N_, M=[1, 2][mi % 2], intg=intg or 'rk', grid=fam.G_UNI, degree=2, scheme='radau'))
    return items


def leaf_list(mat):
    ls = set()
    for row in mat:
        for e in row:
            ls |= leaves(e)
    return sorted(ls, key=repr)


def run(item):
    spec, cfg = item['spec'], item['cfg']
    N, M = cfg.N, cfg.M
    exprs = test_exprs(spec, item.get('exprs_seed'))
    grids = [g for g in GRIDS if not (g[0] == 'integrator_roots' and cfg.method != 'DC') and not (g[0] == '-control-' and cfg.N < 2)]
    plan = []     # (kind, expr name, grid idx, what) aligned with extra outputs

    def extra(b):
        outs = []
        st = b.stage
        for gi, (g, kw) in enumerate(grids):
            for name, mat in exprs:
                if g == 'integrator_roots' and any(l[0] == 'q' for l in leaf_list(mat)):
                    continue
                if 'refine' in kw and cfg.method == 'DC' and any(l[0] == 'q' for l in leaf_list(mat)):
                    continue    # rockit rejects this explicitly ("No quadrature polynomial coefficients")
                if 'refine' in kw and any(l[0] in ('DT', 'DTc') for l in leaf_list(mat)):
                    continue    # DT/DT_control are not among the ingredients the property lists for refined sampling
                m = ca.vcat([ca.hcat([b.mx(e) for e in row]) for row in mat])
                tt, res = st.sample(m, grid=g, **kw)
                plan.append(('expr', name, gi, (len(mat), len(mat[0]))))
                outs.append(res)
                plan.append(('time', name, gi, None))
                outs.append(tt)
                for lf in leaf_list(mat):
                    if lf[0] in ('T', 't0', 'tf'):
                        sym = {'T': st.T, 't0': st.t0, 'tf': st.tf}[lf[0]]
                        plan.append(('valueleaf', name, gi, lf))
                        outs.append(st.value(sym))
                        continue
                    sym = b.leaf(lf[0], lf[1:])
                    plan.append(('leaf', name, gi, lf))
                    outs.append(st.sample(sym, grid=g, **kw)[1])
        # value() of a non-signal expression
        ve = Pg('a') * T + Vg('w') * t0 if not spec.nz else Pg('a') * T + t0
        plan.append(('value', 'value', None, ve))
        outs.append(st.value(b.mx(ve)))
        return outs
    inst = Inst(spec, cfg, seed=item.get('seed', 0), extra_outputs=extra)
    ch = Checker(inst)
    z3 = inst.z3
    viol = []
    doms = inst.domains()

    def V(key, label, detail, pt=None):
        viol.append(describe_violation(inst, PROP, '%s|%s' % (key, cfg.method), label, detail, pt))
    ex = {d: inst.view(d)[5] for d in doms}
    # group plan entries
    groups = {}
    for idx, (kind, name, gi, what) in enumerate(plan):
        groups.setdefault((name, gi), []).append((kind, what, idx))
    for (name, gi), ents in groups.items():
        if name == 'value':
            continue
        g, kw = grids[gi]
        glab = g + (''.join('+%s=%s' % kv for kv in kw.items()))
        e_idx = [i for k, w, i in ents if k == 'expr'][0]
        shape = [w for k, w, i in ents if k == 'expr'][0]
        t_idx = [i for k, w, i in ents if k == 'time'][0]
        mat = dict(exprs)[name]
        r_, c_ = shape
        npts = len(ex['z'][e_idx]) // (r_ * c_)
        # the returned time vector has one entry per returned value, and is what sampling ocp.t on that grid gives
        want_n = {'control': N + 1, 'control-': N, '-control': N, '-control-': N - 1, 'integrator': N * M * kw.get('refine', 1) + 1, 'integrator-': N * M,
                  'integrator_roots': N * M * cfg.degree}[g]
        if npts != want_n:
            V('point-count:%s' % g, 'sample(%s,%s)' % (name, glab), '%d points returned, the grid has %d' % (npts, want_n))
        if len(ex['z'][t_idx]) != npts:
            V('time-length:%s' % g, 'sample(%s,%s)' % (name, glab), 'the time vector has %d entries for %d sampled values' % (len(ex['z'][t_idx]), npts))
        else:
            tl = [i for k, w, i in ents if k == 'leaf' and w == ('t',)]
            if tl:
                for i in range(npts):
                    if not ch.prove('time[%d] of sample(.,%s) == sample(t)' % (i, glab), {d: ex[d][t_idx][i] for d in doms}, {d: ex[d][tl[0]][i] for d in doms}) and ch.violations:
                        v = ch.violations.pop()
                        V('time-vector:%s' % g, 'time[%d]@%s' % (i, glab), 'returned time differs from ocp.t sampled on the same grid: %s' % {k: v.get(k) for k in ('how', 'impl', 'ref')})
        leafvals = {d: {} for d in doms}
        for k, w, i in ents:
            if k in ('leaf', 'valueleaf'):
                for d in doms:
                    leafvals[d][w] = ex[d][i]
        for i in range(npts):
            for cc in range(c_):
                for rr in range(r_):
                    lab = 'sample(%s,%s)[%d,%d,%d]' % (name, glab, i, rr, cc)
                    a = {}
                    b_ = {}
                    for d in doms:
                        dom = inst.rdom if d == 'z' else inst.fdom

                        def leaf(op, args, d=d, i=i):
                            v = leafvals[d][(op,) + tuple(args)]
                            val = v[0] if op in ('T', 't0', 'tf') else v[i] if len(v) == npts else v[i]
                            return inst.rdom.wrap(val) if d == 'z' else val
                        a[d] = ex[d][e_idx][i * r_ * c_ + cc * r_ + rr]
                        b_[d] = ev(mat[rr][cc], leaf, dom)
                    if not ch.prove(lab, a, b_) and ch.violations:
                        v = ch.violations.pop()
                        V('homomorphism:%s' % g, lab, 'sampled expression differs from the expression of the sampled ingredients: %s' % {k: v.get(k) for k in ('how', 'impl', 'ref')},
                          inst.pts[v['point']] if v.get('point') is not None else None)
    # twin (vacuity): the homomorphism check must tell apart an expression evaluated with the control of the NEXT point
    twins_ok = twins_bad = 0
    for (name, gi), ents in groups.items():
        if name != exprs[0][0] or grids[gi][0] != 'control-' or not spec.nu:
            continue
        e_idx = [i for k, w, i in ents if k == 'expr'][0]
        uvals = [ex[0][i] for k, w, i in ents if k == 'leaf' and w[0] == 'u']
        if not uvals or len(uvals[0]) < 2:
            continue
        mat = dict(exprs)[name]
        if ('u', 0) not in leaves(mat[0][0]):
            continue        # (random expressions need not contain the control)
        lv0 = {w: ex[0][i] for k, w, i in ents if k in ('leaf', 'valueleaf')}

        def leaf_shift(op, args):
            v = lv0[(op,) + tuple(args)]
            if op in ('T', 't0', 'tf'):
                return v[0]
            return v[1] if op == 'u' else v[0]
        wrong = ev(mat[0][0], leaf_shift, inst.fdom)
        right = ev(mat[0][0], lambda op, args: (lv0[(op,) + tuple(args)][0]), inst.fdom)
        if close(wrong, right):
            continue        # the shift does not change the reference value here (e.g. a factor t = 0 at the first node): uninformative
        if not close(wrong, ex[0][e_idx][0]):
            twins_ok += 1
        else:
            twins_bad += 1
    # anchors against the reference trajectory
    trs = {d: inst.traj(d) for d in doms}
    refs = {d: Ref(trs[d]) for d in doms}

    def anchor(lf, g, kw, i, d):
        """reference value of primitive leaf at point i of grid g"""
        tr = trs[d]
        dom = tr.dom
        if g in ('-control', '-control-'):
            # a leading '-' drops the first node: point i is control node i+1
            i = i + 1
            g = 'control'
        if g == 'integrator-':
            g = 'integrator'       # the integrator grid without its final point
        if g == 'control' and 'refine' in kw:
            # refined control grid: point i lies in control interval i//r at the fraction (i%r)/r; the very last point is the final node
            r_ = kw['refine']
            k, j_ = i // r_, i % r_
            kk = min(k, N - 1)
            if lf[0] in ('x', 'z', 'q') and j_ != 0:
                return None          # in-between states are C08's subject
            pts_t = tr.tc[k] if j_ == 0 else tr.tc[k] + (tr.tc[k + 1] - tr.tc[k]) * dom.const(Fr(j_, r_))
        elif g in ('control', 'control-'):
            k = i
            kk = min(k, N - 1)
            pts_t = tr.tc[k]
        elif g == 'integrator' and 'refine' not in kw:
            k = min(i // M, N - 1)
            kk = k
            pts_t = tr.ti[i]
        elif g == 'integrator':
            # refined integrator grid: point i lies in integrator step i//r; the very last point is the final node
            r_ = kw['refine']
            last = (i == N * M * r_)
            step_ = min(i // r_, N * M - 1)
            k = min(step_ // M, N - 1)
            kk = k
            if lf[0] == 'x':
                return None          # the in-between states are C08's subject
            pts_t = tr.ti[N * M] if last else tr.ti[step_] + (tr.ti[step_ + 1] - tr.ti[step_]) * dom.const(Fr(i - step_ * r_, r_))
            if last and lf[0] in ('p', 'v'):
                s_ = [p for p in (spec.params if lf[0] == 'p' else spec.vars) if p.name == lf[1]][0]
                if s_.grid == 'control+':
                    return (tr.Pc if lf[0] == 'p' else tr.Vc)[lf[1]][N][lf[2]]
        else:
            return None
        op = lf[0]
        if op == 'u':
            return tr.U[kk][lf[1]]
        if op == 't':
            return pts_t
        if op == 'DTc':
            return tr.tc[kk + 1] - tr.tc[kk]
        if op == 'DT':
            return (tr.tc[kk + 1] - tr.tc[kk]) / dom.const(M)
        if op == 'p':
            s = [p for p in spec.params if p.name == lf[1]][0]
            if s.grid == '':
                return tr.P[lf[1]][lf[2]]
            if s.grid == 'control':
                return tr.Pc[lf[1]][kk][lf[2]]
            if g != 'integrator':
                return tr.Pc[lf[1]][k][lf[2]]
            return tr.Pc[lf[1]][N][lf[2]] if ('refine' not in kw and i == N * M) else tr.Pc[lf[1]][kk][lf[2]]
        if op == 'v':
            s = [p for p in spec.vars if p.name == lf[1]][0]
            if s.grid == '':
                return tr.V[lf[1]][lf[2]]
            if s.grid == 'control':
                return tr.Vc[lf[1]][kk][lf[2]]
            return tr.Vc[lf[1]][N][lf[2]] if ((g == 'integrator' and 'refine' not in kw and i == N * M) or (g != 'integrator' and k == N)) else tr.Vc[lf[1]][kk][lf[2]]
        if op == 'x':
            return tr.X[k][lf[1]] if g != 'integrator' else tr.Xi[i][lf[1]]
        if op == 'z' and cfg.method == 'DC' and 'refine' not in kw and g in ('integrator', 'control', 'control-'):
            # algebraic variable at the start of an integrator step = its collocation polynomial (through the d root values) at tau=0;
            # at the very last point: the last step's polynomial at tau=1
            d_ = cfg.degree
            tb_ = rco.Tables(d_, cfg.scheme)
            from .c08 import lag_weights
            npts_ = N * M
            step_ = (i if g == 'integrator' else i * M)
            last_ = step_ >= npts_
            if last_:
                step_ = npts_ - 1
            w = lag_weights(tb_.tau, Fr(1) if last_ else Fr(0))
            return sum((tr.Zr[step_ * d_ + j][lf[1]] * dom.const(w[j]) for j in range(1, d_)), tr.Zr[step_ * d_][lf[1]] * dom.const(w[0]))
        return None
    seen = set()
    for idx, (kind, name, gi, what) in enumerate(plan):
        if kind != 'leaf':
            continue
        g, kw = grids[gi]
        if (what, gi) in seen:
            continue
        seen.add((what, gi))
        n_ = len(ex['z'][idx])
        for i in range(n_):
            if anchor(what, g, kw, i, 0) is None:
                continue
            lab = 'anchor %s@%s[%d]' % (what, g + ''.join('+%s=%s' % kv for kv in kw.items()), i)
            if not ch.prove(lab, {d: ex[d][idx][i] for d in doms}, {d: anchor(what, g, kw, i, d) for d in doms}) and ch.violations:
                v = ch.violations.pop()
                V('anchor:%s:%s' % (what[0], g), lab, 'sampled primitive differs from the trajectory quantity of that point: %s' % {k: v.get(k) for k in ('how', 'impl', 'ref')},
                  inst.pts[v['point']] if v.get('point') is not None else None)
    # quadrature state anchors: control and integrator grid
    qidx = [(idx, gi) for idx, (kind, name, gi, what) in enumerate(plan) if kind == 'leaf' and what[0] == 'q']
    def quad_ref(d):
        tr = trs[d]
        dom = tr.dom
        run_ = [[dom.const(0)]]
        if cfg.method == 'DC':
            qs = rco.quadrature(tr, spec.quads)
            run_ += qs
        else:
            acc = [dom.const(0)]
            for k in range(N):
                _, qq = propagate(tr, k, tr.X[k], quads=spec.quads)
                for j in range(M):
                    run_.append([acc[0] + qq[j][0]])
                acc = [acc[0] + qq[-1][0]]
        return run_     # per integrator point 0..N*M
    qref = {d: quad_ref(d) for d in doms}
    done = set()
    for idx, gi in qidx:
        g, kw = grids[gi]
        if gi in done or 'refine' in kw or g == 'integrator_roots':
            continue
        done.add(gi)
        n_ = len(ex['z'][idx])
        for i in range(n_):
            j = (i + (1 if g.startswith('-') else 0)) * M if 'control' in g else i
            lab = 'anchor q@%s[%d]' % (g, i)
            if not ch.prove(lab, {d: ex[d][idx][i] for d in doms}, {d: qref[d][j][0] for d in doms}) and ch.violations:
                v = ch.violations.pop()
                V('anchor:q:%s' % g, lab, 'sampled quadrature state differs from the scheme quadrature accumulated up to that point: %s' % {k: v.get(k) for k in ('how', 'impl', 'ref')},
                  inst.pts[v['point']] if v.get('point') is not None else None)
    # value(e)
    vi = [i for i, p_ in enumerate(plan) if p_[0] == 'value'][0]
    ve = plan[vi][3]
    if not ch.prove('value(e)', {d: ex[d][vi][0] for d in doms}, {d: refs[d].top(ve) for d in doms}) and ch.violations:
        v = ch.violations.pop()
        V('value', 'value(e)', 'value of a non-signal expression differs: %s' % {k: v.get(k) for k in ('how', 'impl', 'ref')})
    # layout of the numeric read-back (ground): DM2numpy on tagged values vs symbolic sample at the same vector
    from rockit.casadi_helpers import DM2numpy
    nlp = inst.nlp
    xs = [0.1 + 0.013 * i for i in range(nlp.nx)]
    ps = [0.7 + 0.017 * i for i in range(nlp.np)]
    fo = inst.prog.run(inst.fdom, nlp.split(xs, nlp.xsyms) + nlp.split(ps, nlp.psyms))
    nn = len(inst.named.items)
    fex = fo[4 + nn:]
    for idx, (kind, name, gi, what) in enumerate(plan):
        if kind != 'expr':
            continue
        r_, c_ = what
        flat = fex[idx]
        npts = len(flat) // (r_ * c_)
        dm = ca.DM(np.array(flat, dtype=float).reshape((npts * c_, r_)).T)
        arr = DM2numpy(dm, (r_, c_), npts)
        want_shape = tuple([npts] + [s for s in (r_, c_) if s != 1])
        ok = tuple(arr.shape) == want_shape
        if ok:
            for i in range(npts):
                for rr in range(r_):
                    for cc in range(c_):
                        idxs = tuple([i] + ([rr] if r_ != 1 else []) + ([cc] if c_ != 1 else []))
                        if not close(float(arr[idxs]), flat[i * r_ * c_ + cc * r_ + rr]):
                            ok = False
        g, kw = grids[gi]
        if not ok:
            V('layout', 'DM2numpy(%s,%s)' % (name, g), 'array returned for an %dx%d expression on %d time points has shape %s / wrong entry order (expected %s, entry [i,r,c] = element (r,c) at time i)' % (r_, c_, npts, arr.shape, want_shape))
        else:
            ch.proved.append('layout %s@%s' % (name, g))
    # the numeric read-back itself (OcpSolution.sample at the starting point): one time entry per returned value, leading index = time
    from rockit.solution import OcpSolution
    opti_ = inst.b.ocp._method.opti

    class _AtStart:
        def value(self, e, *a):
            return opti_.debug.value(e, opti_.initial())
    try:
        with quiet():
            sol_ = OcpSolution(_AtStart(), inst.b.ocp)
        done_ = set()
        for name, mat in exprs[:2]:
            for gi, (g, kw) in enumerate(grids):
                if 'refine' in kw or (g, len(mat), len(mat[0])) in done_ or (g == 'integrator_roots' and any(l[0] == 'q' for l in leaf_list(mat))):
                    continue
                done_.add((g, len(mat), len(mat[0])))
                with quiet():
                    m_ = ca.vcat([ca.hcat([inst.b.mx(e) for e in row]) for row in mat])
                    tt_, vv_ = sol_.sample(m_, grid=g)
                want_n = {'control': N + 1, 'control-': N, '-control': N, '-control-': N - 1, 'integrator': N * M + 1, 'integrator-': N * M, 'integrator_roots': N * M * cfg.degree}[g]
                want_shape = tuple([want_n] + [s_ for s_ in (len(mat), len(mat[0])) if s_ != 1])
                if np.shape(tt_) != (want_n,) or np.shape(vv_) != want_shape:
                    V('readback-shape', 'sol.sample(%s,%s)' % (name, g), 'sol.sample returned a time array of shape %s and values of shape %s for a %dx%d expression on %d time points (expected (%d,) and %s)' % (
                        np.shape(tt_), np.shape(vv_), len(mat), len(mat[0]), want_n, want_n, want_shape))
                else:
                    ch.proved.append('readback shape %s@%s' % (name, g))
        # the list form of the numeric sampler: every entry is shaped like ITS OWN expression and equals the single-expression sampler
        if spec.nx >= 2 and cfg.method != 'SS' and not spec.nz:
            with quiet():
                xa_, xb_ = inst.b.xel[0], inst.b.xel[1]
                tq_ = inst.b.stage.t
                es_ = [ca.horzcat(xa_, xb_ * xa_), xa_ * tq_, ca.vertcat(xa_, xb_ * xa_), ca.vertcat(xb_, xa_, xa_ + xb_)]
                t_lo, t_hi = [float(v_) for v_ in np.atleast_1d(sol_.sample(tq_, grid='control')[1])[[0, -1]]]
                tv_ = np.array([t_lo + (t_hi - t_lo) * f_ for f_ in (0.1, 0.35, 0.6, 0.85)])
                many_ = sol_.sampler(es_)(tv_)
                single_ = [sol_.sampler(e_)(tv_) for e_ in es_]
            bad_ = [i_ for i_ in range(len(es_)) if np.shape(many_[i_]) != np.shape(single_[i_]) or not np.allclose(many_[i_], single_[i_], rtol=1e-9, atol=1e-12)]
            if bad_:
                V('sampler-list', 'sol.sampler([e1..e4])', 'entries %s of the list form differ from the single-expression sampler (shapes %s vs %s)' % (bad_, [np.shape(a_) for a_ in many_], [np.shape(a_) for a_ in single_]))
            else:
                ch.proved.append('sampler list form: 4 differently shaped expressions at 4 times equal the single-expression sampler (ground)')
    except Exception as e_:
        V('readback-raises', 'sol.sample', 'numeric read-back raised: %s' % str(e_).strip().splitlines()[-1][:200])
    r = result(inst, ch, {'violations': viol, 'twins_ok': twins_ok, 'twins_bad': twins_bad, 'shape': '%s|%s' % (cfg.tag(), spec.t0[0] + '/' + spec.T[0]),
                          'sample': {'cfg': cfg.tag(), 'expressions': [(n_, repr(m)) for n_, m in exprs][:3], 'grids': [g + str(kw) for g, kw in grids], 'proved': len(ch.proved)}})
    if viol:
        r['status'] = 'violation'
    return r
