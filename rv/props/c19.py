"""C19 to_function reproduces the set_value / set_initial / solve / sample pipeline."""
import copy
import random
from fractions import Fraction as Fr

import casadi as ca
import numpy as np

from .. import families as fam
from ..dsl import (Cfg, Spec, Sym, Con, E, X, U, Z, Pg, Vg, t, T, t0, nl1, nl2, at_t0, at_tf, integral, sum_, C)
from ..extract import quiet, param_value
from ..instance import Inst
from ..match import Checker, close
from ..sx2smt import SXProgram, emb, HarnessError
from .common import describe_violation, result

PROP = 'C19'
LEVEL = 'other'
META = {
    'rule': 'instance = (model, method, N, M, choice of arguments (global / per-interval parameter values, initial guesses of sampled states/controls/variables) and results).  The graph of the returned Function is '
            'split at its nlpsol call into pre (arguments -> x0, p, lbg, ubg of the solver) and helper (solver output -> results); both are lowered to SX.  Proven for ALL argument values (z3): every listed parameter '
            'argument is what the NLP parameter entries read through the named quantities; unlisted parameters keep their current value; listed guesses arrive on the named variables in physical units, unlisted variables keep '
            'their current initial value; DirectCollocation helper states start from the node state of their interval; pre.lbg/ubg == opti.lbg/ubg(p); helper(x,p) == the sample/value result expressions; the embedded NLP has '
            'the dimensions of opti\'s.  Ground anchor: for concrete values, set_value/set_initial on the imperative side produce the same x0/p as pre(values).  nlpsol itself is an uninterpreted deterministic function of its inputs',
    'functions': ['rockit/ocp.py:to_function', 'rockit/direct_method.py:DirectMethod.to_function', 'rockit/direct_collocation.py:DirectCollocation.to_function (Xc_vars0/Zc0 implicit initialisation)', 'rockit/stage.py:value/sample'],
    'bounds': '<=3 arguments, <=3 results; MS, SS, DC (degree 2, 3); N<=3, M<=2; parameters global and per-interval; guesses for states (n x (N+1)), controls (n x N), global variables, the "z" argument of DirectCollocation on a DAE',
    'outside': 'initial-guess arguments of SCALED quantities (CasADi\'s Opti.to_function requires purely symbolic arguments and raises); the numeric result of the embedded solver (deterministic function of its inputs: assumed); code generation of the Function; IEEE rounding',
    'assumptions': ['nlpsol is a deterministic function of (x0,p,lbx,ubx,lbg,ubg,lam0): agreement of its inputs implies agreement of the pipelines', 'reals for floats'],
    'explanation': 'bounded symbolic checking of the argument routing (pre) and result map (helper) of the real to_function graph, decided by z3; the imperative pipeline is anchored at concrete values',
}


def dae_model():
    s = Spec(nx=2, nu=1, nz=1, ode=[Z(0) * X(1) + t, nl1(X(0)) + U(0) * Pg('pc')], alg=[Z(0) - nl2(X(0), t) * Pg('a') + X(1)],
             params=[Sym('a', value=2), Sym('pc', 'control', value=3), Sym('b', value=Fr(5, 2))], vars=[Sym('w')])
    s.objective = [integral(X(0) * X(0) + U(0) * U(0) + Z(0) * Z(0)) + Vg('w') * Vg('w') * Pg('b')]
    s.cons = [Con('==', at_t0(X(0)), Pg('a')), Con('<=<=', -3, 3, mid=U(0))]
    s.initial = [(Z(0), Fr(-1))]
    return s


def dae_model_vec():
    """a vector-valued algebraic variable followed by a scalar one"""
    s = Spec(nx=1, nu=1, nz=3, zshape=[2, 1], ode=[Z(0) + Z(2) * U(0) + t], alg=[Z(0) - nl1(X(0)) * Pg('a'), Z(1) - X(0) * t, Z(2) * 2 - Z(0) - U(0)],
             params=[Sym('a', value=2), Sym('pc', 'control', value=3), Sym('b', value=Fr(5, 2))], vars=[Sym('w')])
    s.objective = [integral(X(0) * X(0) + U(0) * U(0) + Z(1) * Z(1)) + Vg('w') * Vg('w') * Pg('b')]
    s.cons = [Con('==', at_t0(X(0)), Pg('a')), Con('<=<=', -3, 3, mid=U(0))]
    return s


def model(dae=False):
    if dae == 'vec':
        return dae_model_vec()
    if dae:
        return dae_model()
    s = Spec(nx=2, nu=1, ode=[nl1(X(1)) * U(0) + t * X(0), X(0) - X(1) * Pg('pc') + Vg('w') * Pg('a')],
             params=[Sym('a', value=Fr(3, 2)), Sym('pc', 'control', value=2), Sym('b', value=Fr(5, 2))], vars=[Sym('w')])
    s.objective = [integral(X(0) * X(0) + U(0) * U(0)) + Vg('w') * Vg('w') * Pg('b')]
    s.cons = [Con('==', at_t0(X(0)), Pg('a')), Con('<=', X(1), 5 + Pg('b')), Con('<=<=', -3, 3, mid=U(0))]
    s.initial = [(X(1), Fr(1, 2)), (Vg('w'), Fr(1, 4))]
    return s


def _all_times(ocp, opti, cfg):
    """numeric times of every point a state guess is evaluated at (control nodes, integrator points, collocation roots) at the current starting point"""
    out = []
    with quiet():
        for g in ('control', 'integrator') + (('integrator_roots',) if cfg.method == 'DC' else ()):
            out += list(np.array(opti.debug.value(ocp.sample(ocp.t, grid=g)[1], opti.initial())).flatten())
    return out


def instances(tier, seed):
    rng = random.Random(seed + 19)
    items = []

    def add(**kw):
        items.append(dict(id='%s#%d' % (PROP, len(items)), **kw))
    choices = [
        (['p:a', 'pc:pc', 'x'], ['x', 'u']),
        (['p:a'], ['x', 'T']),
        (['x', 'u'], ['x', 'w']),
        (['pc:pc', 'w'], ['u', 'w']),
        (['p:a', 'p:b', 'u'], ['x']),
    ]
    n = 0
    reps = 1 if tier == 'quick' else 6
    for rep in range(reps):
        for method, intg in (('MS', 'rk'), ('SS', 'rk'), ('DC', None)):
            for args, ress in choices:
                N = [2, 3][n % 2]
                M = [1, 2][(n // 2) % 2]
                add(spec=model(), cfg=Cfg(method, N=N, M=M, intg=intg or 'rk', grid=[fam.G_UNI, fam.G_GEO_LOC][n % 2], degree=2, scheme='radau'), args=args, results=ress)
                if n % 2 == 0 or tier != 'quick':
                    add(spec=model(), cfg=Cfg(method, N=N, M=M, intg=intg or 'rk', grid=[fam.G_UNI, fam.G_GEO_LOC][n % 2], degree=2, scheme='radau'), args=args, results=ress, late=True)
                n += 1
        # DAE under DirectCollocation: the special "z" argument (guess for the algebraic variables per control interval)
        for args, ress in ((['zstr'], ['x', 'u']), (['x', 'zstr'], ['x']), (['p:a', 'zstr'], ['u'])):
            add(spec=model(dae=True), cfg=Cfg('DC', N=[2, 3][n % 2], M=[1, 2][(n // 2 + 1) % 2], grid=fam.G_UNI, degree=[2, 3][n % 2], scheme='radau'), args=args, results=ress)
            n += 1
        if rep == 0:
            for args, ress in ((['x', 'zstr'], ['x']), (['zstr'], ['u'])):
                add(spec=model(dae=True), cfg=Cfg('DC', N=2, M=1, grid=fam.G_UNI, degree=3, scheme='radau'), args=args, results=ress, twice=True)
            add(spec=model(), cfg=Cfg('MS', N=2, M=1, intg='rk', grid=fam.G_UNI), args=['p:a', 'x'], results=['x', 'u'], twice=True)
        # a guess for the free end time as argument, on plain and on localized time grids
        for g in (fam.G_UNI, fam.G_GEO_LOC, fam.G_UNI_LT, fam.G_FREE):
            for method, intg in (('MS', 'rk'), ('DC', None)):
                add(spec=fam.with_horizon(model(), fam.HORIZONS[2]), cfg=Cfg(method, N=2, M=1, intg=intg or 'rk', grid=g, degree=2, scheme='radau'), args=['T', 'p:a'], results=['x', 'T'])
        if rep == 0:
            # a guess that is an EXPRESSION of a parameter which is an argument of the Function (imperative side: set_value re-evaluates such guesses)
            for method, intg in (('MS', 'rk'), ('DC', None)):
                sg = model()
                sg.initial = list(sg.initial) + [(X(0), Pg('a') * (1 + t))]
                add(spec=sg, cfg=Cfg(method, N=2, M=1, intg=intg or 'rk', grid=fam.G_UNI, degree=2, scheme='radau'), args=['p:a'], results=['x'], expr_guess_of='a')
            # ... and a guess that is an expression of TIME while the guess of the free end time is an argument
            st = fam.with_horizon(model(), fam.HORIZONS[2])
            st.initial = list(st.initial) + [(X(0), 1 + t)]
            add(spec=st, cfg=Cfg('MS', N=2, M=1, intg='rk', grid=fam.G_UNI), args=['T'], results=['x', 'T'], expr_guess_of='T')
        if rep == 0:
            # the horizon is a PARAMETER that is an argument, on grids with localized time variables: imperative set_value(pT, v) after the
            # transcription and the Function both start the local time variables from the grid implied by v
            for g in (fam.G_UNI_LT0, fam.G_UNI_LT, fam.G_FREE, fam.G_UNI_LTT):
                for method, intg in (('MS', 'rk'), ('DC', None)):
                    add(spec=fam.with_horizon(model(), fam.HORIZONS[5]), cfg=Cfg(method, N=2, M=1, intg=intg or 'rk', grid=g, degree=2, scheme='radau'), args=['p:pT', 'p:a'], results=['x'])
        for args, ress in ((['zstr'], ['x']), (['x', 'zstr'], ['x', 'u'])):
            add(spec=model(dae='vec'), cfg=Cfg('DC', N=[2, 3][n % 2], M=[1, 2][n % 2], grid=fam.G_UNI, degree=[3, 2][n % 2], scheme='radau'), args=args, results=ress)
            n += 1
    return items


def run(item):
    spec, cfg = item['spec'], item['cfg']
    N, M = cfg.N, cfg.M
    I = Inst(spec, cfg, seed=item.get('seed', 0))
    b = I.b
    ocp = b.ocp
    z3 = I.z3
    ch = Checker(I)
    viol = []

    def V(key, label, detail):
        viol.append(describe_violation(I, PROP, '%s|%s' % (key, cfg.method), label, detail))
    with quiet():
        xs = ocp.sample(ocp.x, grid='control')[1]
        us = ocp.sample(ocp.u, grid='control-')[1]
        qty = {'x': xs, 'u': us, 'w': ocp.value(b.vsym['w']), 'T': ocp.value(ocp.T)}
        args_mx = []
        for a in item['args']:
            if a.startswith('p:'):
                args_mx.append(b.psym[a[2:]])
            elif a.startswith('pc:'):
                args_mx.append(ocp.sample(b.psym[a[3:]], grid='control-')[1])
            elif a == 'zstr':
                args_mx.append('z')
            else:
                if a == 'x' and cfg.method == 'SS':
                    args_mx.append(xs[:, 0])      # only the initial state is a decision variable under SingleShooting
                else:
                    args_mx.append(qty[a] if a != 'w' else b.vsym['w'])
        res_mx = [qty[r] for r in item['results']]
        if item.get('late'):
            # values and guesses assigned AFTER the first transcription to quantities that are not arguments: they are the "current values"
            if 'p:b' not in item['args']:
                ocp.set_value(b.psym['b'], 3.25)
            if 'u' not in item['args']:
                ocp.set_initial(b.us[0], 0.875)
            if 'w' not in item['args']:
                ocp.set_initial(b.vsym['w'], -0.625)
            if 'x' not in item['args']:
                ocp.set_initial(b.xs[1], 0.375)
        x0_before = list(I.nlp.x0())
        p_before = list(I.nlp.pval())
        x0_before_opti = ocp._method.opti.debug.value(ocp._method.opti.x, ocp._method.opti.initial())
        if item.get('twice'):
            # the SAME Python list object is handed to to_function twice: the second Function is the one examined
            ocp.to_function('F0', args_mx, res_mx)
        F = ocp.to_function('F', args_mx, res_mx)
    # split the graph at the solver call
    solver = helper = None
    for k in range(F.n_instructions()):
        if F.instruction_id(k) == ca.OP_CALL:
            node = F.instruction_MX(k)
            cal = node.which_function()
            if cal.n_in() == 8 and solver is None:
                solver = (node, cal)
            elif solver is not None and helper is None:
                helper = (node, cal)
    if solver is None:
        raise HarnessError('no nlpsol call found in the to_function graph')
    node, cal = solver
    opti = ocp._method.opti
    ain = F.mx_in()
    lbsel = node.dep(4)[I.lb_idx] if I.lb_idx else ca.MX(0, 1)
    ubsel = node.dep(5)[I.ub_idx] if I.ub_idx else ca.MX(0, 1)
    pre = SXProgram(ain, [node.dep(0), node.dep(1), lbsel, ubsel])
    pre.selfcheck(random.Random(3))
    zargs = [[z3.Real('arg%d_%d' % (i, j)) for j in range(a.numel())] for i, a in enumerate(ain)]
    zx0, zp, zlbg, zubg = pre.run(I.zdom, zargs)
    fpts = [[[0.2 + 0.07 * j + 0.03 * r + 0.11 * i for j in range(a.numel())] for i, a in enumerate(ain)] for r in range(3)]
    fpre = [pre.run(I.fdom, p_) for p_ in fpts]
    # the solver's x / p are opti.x / opti.p: map them onto the harness' symbol order
    def positions(vec, syms):
        pos = []
        for s_ in ca.symvar(vec):
            off = 0
            found = False
            for q in syms:
                if ca.is_equal(q, s_):
                    pos += list(range(off, off + q.numel()))
                    found = True
                    break
                off += q.numel()
            if not found:
                raise HarnessError('solver symbol not among opti symbols')
        return pos
    xpos = positions(opti.x, I.nlp.xsyms)
    ppos = positions(opti.p, I.nlp.psyms) if I.nlp.np else []
    if len(xpos) != len(zx0) or len(ppos) != len(zp):
        V('solver-dimensions', 'nx/np', 'embedded solver has %d variables / %d parameters, opti has %d / %d' % (len(zx0), len(zp), len(xpos), len(ppos)))
        r_ = result(I, ch, {'violations': viol, 'shape': cfg.tag()})
        r_['status'] = 'violation'
        return r_
    x0cur = x0_before
    pcur = p_before
    x0_after, p_after = list(I.nlp.x0()), list(I.nlp.pval())
    if not all(close(float(a_), float(c_)) for a_, c_ in zip(x0_before + p_before, x0_after + p_after)):
        V('to_function-side-effect', 'x0/p', 'creating the Function changed the current initial guesses / parameter values of the OCP')
    else:
        ch.proved.append('to_function leaves current values untouched (ground)')

    def full(vals, pos, cur, mk):
        out = [mk(c) for c in cur]
        for v, j in zip(vals, pos):
            out[j] = v
        return out
    zX = full(zx0, xpos, x0cur, lambda c: z3.RealVal(str(Fr(float(c)).limit_denominator(10 ** 9))))
    zP = full(zp, ppos, pcur, lambda c: z3.RealVal(str(Fr(float(c)).limit_denominator(10 ** 9))))
    # named quantities of the NLP evaluated at (x0, p) = pre(args)
    nlp = I.nlp
    zo = I.prog.run(I.zdom, nlp.split(zX, nlp.xsyms) + nlp.split(zP, nlp.psyms))
    nn = len(I.named.items)
    trz = I.named.traj([[I.rdom.wrap(v) for v in grp] for grp in zo[4:4 + nn]], I.rdom)
    fo = []
    for r in range(3):
        fX = full(fpre[r][0], xpos, x0cur, float)
        fP = full(fpre[r][1], ppos, pcur, float)
        fo.append(I.named.traj(I.prog.run(I.fdom, nlp.split(fX, nlp.xsyms) + nlp.split(fP, nlp.psyms))[4:4 + nn], I.fdom))
    doms = ['z', 0, 1, 2]
    trs = {'z': trz, 0: fo[0], 1: fo[1], 2: fo[2]}

    def argval(i, j, d):
        return I.rdom.wrap(zargs[i][j]) if d == 'z' else fpts[d][i][j]

    def P(key, label, a, b_):
        if not ch.prove(label, a, b_) and ch.violations:
            v = ch.violations.pop()
            V(key, label, '%s: %s' % (label, {k: v.get(k) for k in ('how', 'impl', 'ref')}))
    listed_p, listed_x = set(), set()
    for i, a in enumerate(item['args']):
        if a.startswith('p:'):
            nm = a[2:]
            listed_p.add(nm)
            P('param-arg', 'p[%s] == arg' % nm, {d: trs[d].P[nm][0] for d in doms}, {d: argval(i, 0, d) for d in doms})
        elif a.startswith('pc:'):
            nm = a[3:]
            listed_p.add(nm)
            for k in range(N):
                P('param-arg', 'pc[%s][%d] == arg[:,%d]' % (nm, k, k), {d: trs[d].Pc[nm][k][0] for d in doms}, {d: argval(i, k, d) for d in doms})
        elif a == 'x':
            listed_x.add('x')
            nodes = range(N + 1) if cfg.method != 'SS' else [0]
            for k in nodes:
                for s in range(spec.nx):
                    P('guess-arg', 'X0[%d][%d] == arg' % (k, s), {d: trs[d].X[k][s] for d in doms}, {d: argval(i, k * spec.nx + s, d) for d in doms})
            if cfg.method == 'DC':
                # implicit initialisation of the helper states from the node state of their interval
                for n_, col in enumerate(trz.Xr):
                    k = n_ // (M * cfg.degree)
                    for s in range(spec.nx):
                        P('dc-helper-init', 'Xr[%d][%d] == arg[:,%d]' % (n_, s, k), {d: trs[d].Xr[n_][s] for d in doms}, {d: argval(i, k * spec.nx + s, d) for d in doms})
                for n_ in range(N * M):
                    k = n_ // M
                    for s in range(spec.nx):
                        P('dc-helper-init', 'Xi[%d][%d] == arg[:,%d]' % (n_, s, k), {d: trs[d].Xi[n_][s] for d in doms}, {d: argval(i, k * spec.nx + s, d) for d in doms})
        elif a == 'zstr':
            # every collocation root (and sub-step start) of interval k starts from column k of the "z" argument
            d_ = cfg.degree
            for n_, col in enumerate(trz.Zr):
                k = n_ // (M * d_)
                for s_ in range(spec.nz):
                    P('dc-z-arg-init', 'Zr[%d][%d] == z_arg[:,%d]' % (n_, s_, k), {d: trs[d].Zr[n_][s_] for d in doms}, {d: argval(i, k * spec.nz + s_, d) for d in doms})
        elif a == 'u':
            listed_x.add('u')
            for k in range(N):
                P('guess-arg', 'U0[%d] == arg' % k, {d: trs[d].U[k][0] for d in doms}, {d: argval(i, k, d) for d in doms})
        elif a == 'w':
            listed_x.add('w')
            P('guess-arg', 'w0 == arg', {d: trs[d].V['w'][0] for d in doms}, {d: argval(i, 0, d) for d in doms})
        elif a == 'T':
            listed_x.add('T')
            P('guess-arg', 'T0 == arg', {d: trs[d].T for d in doms}, {d: argval(i, 0, d) for d in doms})
    # twin (vacuity): a listed parameter argument is not what a different parameter reads
    twins_ok = twins_bad = 0
    for i, a in enumerate(item['args']):
        if a == 'p:a':
            r, m = ch.neq(trz.P['b'][0], I.rdom.wrap(zargs[i][0]))
            ch.stats['unsat'] -= 1 if r == 'unsat' else 0
            if r == 'sat':
                twins_ok += 1
            else:
                twins_bad += 1
            break
    # unlisted parameters / variables keep their current values
    cur = I.named.traj(I.prog.run(I.fdom, nlp.split(x0cur, nlp.xsyms) + nlp.split(pcur, nlp.psyms))[4:4 + nn], I.fdom)
    for p in spec.params:
        if p.name in listed_p:
            continue
        cols = [trz.P[p.name]] if p.grid == '' else trz.Pc[p.name]
        ccols = [cur.P[p.name]] if p.grid == '' else cur.Pc[p.name]
        for k, (col, cc) in enumerate(zip(cols, ccols)):
            r, m = ch.neq(col[0], I.rdom.const(Fr(float(cc[0])).limit_denominator(10 ** 9)))
            if r == 'unsat':
                ch.proved.append('unlisted parameter %s[%d] keeps its value' % (p.name, k))
            else:
                V('unlisted-parameter', '%s[%d]' % (p.name, k), 'a parameter that is not an argument does not keep its current value %r inside the Function' % float(cc[0]))
    if 'u' not in listed_x:
        for k in range(N):
            r, m = ch.neq(trz.U[k][0], I.rdom.const(Fr(float(cur.U[k][0])).limit_denominator(10 ** 9)))
            if r == 'unsat':
                ch.proved.append('unlisted control guess U[%d] keeps its value' % k)
            else:
                V('unlisted-guess', 'U[%d]' % k, 'a variable that is not an argument does not start from its current initial value')
    if 'x' not in listed_x:
        for s in range(spec.nx):
            r, m = ch.neq(trz.X[0][s], I.rdom.const(Fr(float(cur.X[0][s])).limit_denominator(10 ** 9)))
            if r == 'unsat':
                ch.proved.append('unlisted state guess X[0][%d] keeps its value' % s)
            else:
                V('unlisted-guess', 'X[0][%d]' % s, 'a variable that is not an argument does not start from its current initial value %r' % float(cur.X[0][s]))
    # bounds handed to the solver == opti.lbg/ubg(p)
    lbz, ubz = zo[2], zo[3]
    for n_, i in enumerate(I.lb_idx):
        r, m = ch.neq(zlbg[n_], lbz[n_])
        if r == 'unsat':
            ch.proved.append('lbg[%d]' % i)
        else:
            V('bounds', 'lbg[%d]' % i, 'lower bound handed to the embedded solver differs from opti.lbg(p)')
    for n_, i in enumerate(I.ub_idx):
        r, m = ch.neq(zubg[n_], ubz[n_])
        if r == 'unsat':
            ch.proved.append('ubg[%d]' % i)
        else:
            V('bounds', 'ubg[%d]' % i, 'upper bound handed to the embedded solver differs from opti.ubg(p)')
    # helper(x,p) == result expressions
    if helper is not None:
        hn, hc = helper
        lam = ca.MX.zeros(opti.ng, 1)
        hout = hc.call([opti.x, opti.p, lam] if hc.n_in() == 3 else [opti.x, opti.p])
        hp = SXProgram(nlp.xsyms + nlp.psyms, list(hout) + [ca.MX(r) for r in res_mx])
        hz = hp.run(I.zdom, nlp.split(I.xv, nlp.xsyms) + nlp.split(I.pv, nlp.psyms))
        nr = len(res_mx)
        for ri in range(nr):
            for j in range(len(hz[ri])):
                r, m = ch.neq(hz[ri][j], hz[nr + ri][j])
                if r == 'unsat':
                    ch.proved.append('helper result %s[%d]' % (item['results'][ri], j))
                    ch.nontrivial.add('helper result %s[%d]' % (item['results'][ri], j))
                else:
                    V('helper', '%s[%d]' % (item['results'][ri], j), 'result computed inside the Function from the solver output differs from the sampled expression')
    # embedded NLP dimensions
    if cal.size1_in(0) != opti.nx or cal.size1_in(4) != opti.ng:
        V('solver-dimensions', 'nx/ng', 'embedded solver: %d variables %d constraints, opti: %d / %d' % (cal.size1_in(0), cal.size1_in(4), opti.nx, opti.ng))
    else:
        ch.proved.append('embedded NLP dimensions')
    # ground anchor: imperative calls give the same x0/p as pre(values)
    vals = fpts[0]
    preF = ca.Function('pre', ain, [node.dep(0), node.dep(1)])
    pv = preF.call([ca.DM(np.array(v)).reshape(a.shape) if a.numel() > 1 else ca.DM(v[0]) for v, a in zip(vals, ain)])
    with quiet():
        for i, a in enumerate(item['args']):
            dm = ca.DM(np.array(vals[i])).reshape(ain[i].shape)
            if a.startswith('p:'):
                ocp.set_value(b.psym[a[2:]], dm)
            elif a.startswith('pc:'):
                ocp.set_value(b.psym[a[3:]], dm)
            elif a == 'x':
                for gi_, xsym in enumerate(b.xs):
                    ocp.set_initial(xsym, dm[gi_, :] if cfg.method != 'SS' else dm[gi_])
            elif a == 'u':
                ocp.set_initial(b.us[0], dm)
            elif a == 'w':
                ocp.set_initial(b.vsym['w'], dm)
            elif a == 'T':
                ocp.set_initial(ocp.T, dm)
            elif a == 'zstr':
                # imperative counterpart of the "z" argument: one n_i x N array guess per declared algebraic variable
                off = 0
                for zg in b.zgroups:
                    ocp.set_initial(zg, dm[off:off + zg.numel(), :])
                    off += zg.numel()
    xi = np.array(opti.debug.value(opti.x, opti.initial())).flatten()
    pi = np.array(opti.debug.value(opti.p, opti.initial())).flatten() if opti.np else np.zeros(0)
    xa = np.array(pv[0]).flatten()
    pa = np.array(pv[1]).flatten()
    skip = set()
    if cfg.method == 'DC' and 'x' in listed_x:
        # imperative set_initial of states also initialises helper states per interval (same convention): compared as well
        pass
    badx = [j for j in range(len(xi)) if not close(float(xi[j]), float(xa[j]), 1e-9)]
    badp = [j for j in range(len(pi)) if not close(float(pi[j]), float(pa[j]), 1e-9)]
    if badp:
        V('anchor-p', 'p', 'imperative set_value gives p=%s, the Function hands %s to the solver' % (list(pi), list(pa)))
    if badx and item.get('expr_guess_of'):
        # is the disagreement exactly "the Function keeps the guess evaluated with the OLD parameter value, set_value re-evaluates it with the new one"?
        a_new = float(vals[item['args'].index('p:a')][0]) if item['expr_guess_of'] == 'a' else 1.0
        xb_ = np.array(x0_before_opti).flatten()
        stale = all(close(float(xa[j]), float(xb_[j]), 1e-9) for j in badx)
        follows = all(any(close(float(xi[j]), a_new * (1 + float(tn)), 1e-7) for tn in _all_times(ocp, opti, cfg)) for j in badx)
        if stale and follows:
            V('anchor-x0:guess-expression-of-an-argument-not-followed' + (':T' if item['expr_guess_of'] == 'T' else ''), 'x0', 'the guess of x0 is an expression (a*(1+t) / 1+t) of a quantity that is an argument (parameter a / guess of the free T): the imperative call re-evaluates the guess with the new value (entries %s start at %s), the Function keeps the guess evaluated with the value current when it was created (%s)' % (
                badx[:6], [round(float(xi[j]), 6) for j in badx[:6]], [round(float(xa[j]), 6) for j in badx[:6]]))
            badx = []
    if badx:
        V('anchor-x0', 'x0', 'imperative set_initial gives a different starting point than the Function on entries %s: %s vs %s' % (badx[:6], [float(xi[j]) for j in badx[:6]], [float(xa[j]) for j in badx[:6]]))
    if not badx and not badp:
        ch.proved.append('imperative x0/p == pre(values) (ground)')
    r_ = result(I, ch, {'violations': viol, 'twins_ok': twins_ok, 'twins_bad': twins_bad, 'shape': '%s|%s->%s' % (cfg.tag(), item['args'], item['results']),
                        'sample': {'cfg': cfg.tag(), 'args': item['args'], 'results': item['results'], 'graph': [solver[1].name(), helper[1].name() if helper else None], 'proved': len(ch.proved)}})
    if viol:
        r_['status'] = 'violation'
    return r_
