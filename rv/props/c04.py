"""C04 Every constraint is imposed exactly where declared, and nothing else is."""
import copy
import random
from fractions import Fraction as Fr

from .. import families as fam
from ..dsl import (Cfg, Sym, Con, X, U, Z, Pg, Vg, t, T, t0, tf, DT, DTc, nl1, nl2, at_t0, at_tf, offset, nxt, prv, C, PINF, NINF)
from ..instance import Inst
from ..match import Checker
from ..sx2smt import RZ, emb
from ..ref.semantics import Ref
from ..ref import shooting as rsh, collocation as rco
from .common import multi, impl_atoms, model_vars, describe_violation, result

PROP = 'C04'
LEVEL = 'translation_validation'
META = {
    'rule': 'instance = (model, constraint set with grid/include_first/include_last/offset options, method, N, M, grid, horizon kinds); the COMPLETE '
            'atom multiset of the real NLP must be in bijection with reference placement + dynamics (+ time-grid rows, which may only touch '
            'time variables); non-trivial = matched atom depending on decision variables; distinct by (shape, atom label)',
    'functions': ['rockit/stage.py:subject_to/is_signal/offset/next/prev/at_t0/at_tf', 'rockit/multiple_shooting.py:add_constraints',
                  'rockit/single_shooting.py:add_constraints', 'rockit/direct_collocation.py:add_constraints',
                  'rockit/sampling_method.py:eval_at_control/_eval_at_control/eval_at_integrator/eval_at_integrator_root/add_constraints_before/after',
                  'rockit/direct_method.py:OptiWrapper.subject_to/transcribe_placeholders'],
    'bounds': 'constraints: ==, <=, >=, two-sided, scalar and vector valued (with broadcast bounds); bodies over x,u,z,t,T,t0,p,v (global/per-interval/control+) with uninterpreted markers; '
              'at_t0/at_tf mixes; offsets -2..2; grids control/integrator/integrator_roots; include_first/include_last; quick N<=3, M<=2; thorough N<=4, M<=3',
    'outside': "grid='inf' (C15); refine/group_* options; scale != 1 (C14); multi-stage (C12); IEEE rounding",
    'assumptions': ['reals for floats; constants identified up to 1e-10', 'markers stand for arbitrary total functions',
                    'named read-back quantities anchored by C01/C02/C07; time-grid rows are checked by C06'],
}


def constraint_sets(spec, method):
    x0 = X(0)
    x1 = X(min(1, spec.nx - 1))
    u = U(0) if spec.nu else None
    pcs = [Pg(p.name) for p in spec.params if p.grid == 'control' and p.n == 1]
    pps = [Pg(p.name) for p in spec.params if p.grid == 'control+' and p.n == 1]
    pg = [Pg(p.name) for p in spec.params if p.grid == '' and p.n == 1 and p.name not in ('pt0', 'pT')]
    vg = [Vg(v.name) for v in spec.vars if v.grid == '']
    vcs = [Vg(v.name) for v in spec.vars if v.grid == 'control']
    vps = [Vg(v.name) for v in spec.vars if v.grid == 'control+']
    a = pg[0] if pg else C(3)
    pc = pcs[0] if pcs else C(2)
    sets = []
    s1 = [Con('<=', x0, 3), Con('>=', x1, a), Con('==', at_t0(x0), 1), Con('==', at_tf(x1) * pc, a)]
    if u is not None:
        s1.append(Con('<=<=', -1, 1, mid=u * pc))
    # vector-valued constraints (one NLP row per component), scalar bound broadcast
    s1.append(Con('<=', [x0 + t, x1 * pc], [4, a + 6]))
    s1.append(Con('>=', [x1, x0 - x1], -8, grid='integrator' if method != 'SS' else None))
    s1.append(Con('==', [at_tf(x0), at_t0(x1) + at_tf(x1)], [a, 2]))
    # vector-valued two-sided constraint with infinite bounds on some rows only
    s1.append(Con('<=<=', [NINF, -1, -3], [2, 1, PINF], mid=[x0, (u if u is not None else x1) * pc, x1 + t]))
    sets.append(s1)
    s2 = [Con('<=', x0 * x0 + nl1(x1), t + T, include_first=False),
          Con('>=', x1 - t0, -2, include_last=False),
          Con('==', at_t0(x0), at_tf(x0)),
          Con('<=', at_tf(x1) - at_t0(x1), tf)]
    if u is not None:
        s2.append(Con('<=', u * u, 4 + a, include_first=False, include_last=False))
    sets.append(s2)
    s3 = [Con('<=', nxt(x0) - x0, 1), Con('>=', x1 - prv(x1), -a), Con('<=', offset(x0, 2) + x0, 5), Con('<=', offset(x1, -2), x0 + 7)]
    s3.append(Con('<=', nxt(x0 * pc) - x0, 5))
    if vcs:
        s3.append(Con('>=', nxt(vcs[0]) + x0, -5))
    if pps:
        # shifted per-node parameter (N+1 values): the operand of the last interval's instance is the FINAL column
        s3.append(Con('<=', nxt(pps[0]) * x0, 6))
        s3.append(Con('>=', offset(pps[0] + x1, 2), -7))
    if vps:
        s3.append(Con('<=', nxt(vps[0]) - x0, 8))
    # the shifted operand is the only time-dependent ingredient
    s3.append(Con('<=', nxt(x1), 4))
    s3.append(Con('>=', prv(x0) * a, -6, include_last=False))
    if u is not None:
        s3.append(Con('<=<=', -1, 1, mid=nxt(u) - u))
    sets.append(s3)
    s4 = [Con('<=', x0, 3 + t, grid='integrator'), Con('>=', nl2(x0, x1), -1, grid='integrator', include_first=False),
          Con('<=', x1 * DT, 4, grid='integrator', include_last=False)]
    sets.append(s4)
    s5 = []
    if vcs:
        s5.append(Con('<=', vcs[0], x0 + 1))
    if vps:
        s5.append(Con('>=', vps[0] * x1, -3))
    if pps:
        s5.append(Con('<=', x0, pps[0] + 4))
    if vg:
        s5.append(Con('==', vg[0], at_tf(x0)))
        s5.append(Con('<=', vg[0], 10))
    s5.append(Con('<=', x0 * DTc, 6))
    sets.append(s5)
    if method == 'DC':
        s6 = [Con('<=', x0, 3 + t, grid='integrator_roots'), Con('>=', x1 * x0, -5, grid='integrator_roots')]
        if spec.nz:
            s6.append(Con('<=', Z(0), 9, grid='integrator_roots'))
            s6.append(Con('>=', Z(0) + x0, -9))
        sets.append(s6)
    return sets


def instances(tier, seed):
    rng = random.Random(seed + 4)
    items = []

    def add(spec, cfg, **kw):
        items.append(dict(id='%s#%d' % (PROP, len(items)), spec=spec, cfg=cfg, **kw))
    H = fam.HORIZONS
    Hsym = [h for h in H if fam.horizon_symbolic(h)]
    grids = [fam.G_UNI, fam.G_GEO_LOC, fam.G_UNI_LT, 'fun', fam.G_FREE, fam.G_UNI_LT0]
    n = 0
    reps = 1 if tier == 'quick' else 6
    for rep in range(reps):
        for method, intg in (('MS', 'rk'), ('SS', 'rk'), ('DC', None), ('MS', 'expl_euler')):
            models = fam.ode_core()[:3] + (fam.dae_core() if method == 'DC' else [])
            nsets = 6 if method == 'DC' else 5
            for si in range(nsets):
                s = copy.deepcopy(models[(n + rep) % len(models)])
                sets = constraint_sets(s, method)
                if si >= len(sets):
                    continue
                s.cons = sets[si]
                if not s.cons:
                    continue
                N = ([3, 2, 3][n % 3]) if tier == 'quick' else rng.choice([2, 3, 4])
                M = ([2, 1][n % 2]) if tier == 'quick' else rng.choice([1, 2, 3])
                if si == 3:
                    M = max(M, 2)
                g = grids[n % len(grids)]
                if g == 'fun':
                    g = fam.G_FUN(N)
                h = H[n % len(H)]
                degree, scheme = [(2, 'radau'), (3, 'radau'), (2, 'legendre'), (1, 'radau'), (4, 'radau')][n % 5]
                if method == 'DC' and not fam.rational_tables(degree, scheme) and not fam.horizon_symbolic(h):
                    h = Hsym[n % len(Hsym)]
                add(fam.with_horizon(s, h), Cfg(method, N=N, M=M, intg=intg or 'rk', grid=g, degree=degree, scheme=scheme))
                n += 1
    # the horizon changed after a first transcription (set_t0/set_T on a transcribed OCP): every placement uses the times of the FINAL horizon
    for mi, (method, intg, N, M) in enumerate((('DC', None, 2, 2), ('MS', 'rk', 2, 2), ('DC', None, 3, 1), ('SS', 'rk', 2, 1))):
        s = copy.deepcopy(fam.ode_core()[mi % 3])
        x1_ = X(min(1, s.nx - 1))
        s.cons = [Con('<=', X(0), t + 3), Con('>=', x1_ * t, -4, grid='integrator' if method != 'SS' else None), Con('<=', at_tf(X(0)), tf)]
        if method == 'DC':
            s.cons.append(Con('<=', X(0) - t * x1_, 5, grid='integrator_roots'))
        add(fam.with_horizon(s, (('num', Fr(1, 2)), ('num', Fr(2)))), Cfg(method, N=N, M=M, intg=intg or 'rk', grid=[fam.G_UNI, fam.G_GEO_LOC][mi % 2], degree=[2, 1][mi % 2], scheme='radau'),
            rehorizon=(Fr(0), Fr(4)))
    # the length of the control interval inside a SHIFTED operand on a non-uniform grid: at the final node it is the last interval's length
    from ..dsl import DTc
    for mi, (method, intg, g_) in enumerate((('MS', 'rk', fam.G_GEO_LOC), ('DC', None, fam.G_GEO_LOC), ('SS', 'rk', fam.G_GEO_LOC), ('MS', 'rk', fam.G_FREE))):
        s = copy.deepcopy(fam.ode_core()[0])
        s.cons = [Con('<=', nxt(DTc * X(0)) - X(0), 5), Con('>=', offset(DTc + X(1), 2), -3), Con('<=', prv(DTc) * X(0), 7), Con('<=', DTc * X(1), 6)]
        s.note = (s.note or '') + ' + DT_control in shifted operands'
        add(fam.with_horizon(s, Hsym[mi % len(Hsym)]), Cfg(method, N=3, M=[1, 2][mi % 2], intg=intg or 'rk', grid=g_, degree=2, scheme='radau'))
    # a path constraint on a declared QUADRATURE state (alone and next to a state): one instance per control node
    from ..dsl import Q
    for mi, (method, intg) in enumerate((('MS', 'rk'), ('DC', None), ('SS', 'rk'), ('MS', 'expl_euler'))):
        s = copy.deepcopy(fam.ode_core()[mi % 3])
        s.quads = [X(0) * X(0) + t]
        s.cons = [Con('<=', Q(0), 5), Con('>=', Q(0) + X(0) * t, -4, include_first=False), Con('<=', at_tf(Q(0)), 3)]
        add(fam.with_horizon(s, fam.HORIZONS[(2 * mi + 1) % len(fam.HORIZONS)] if method != 'DC' else Hsym[mi % len(Hsym)]),
            Cfg(method, N=[2, 3][mi % 2], M=[2, 1][mi % 2], intg=intg or 'rk', grid=[fam.G_UNI, fam.G_GEO_LOC][mi % 2], degree=2, scheme='radau'))
    # matrix-valued per-interval variable and parameter (element access inside constraints)
    for method, intg, N in (('MS', 'rk', 3), ('DC', None, 2), ('SS', 'rk', 2)):
        s = copy.deepcopy(fam.ode_core()[0])
        s.vars = list(s.vars) + [Sym('Vm', 'control', rows=2, cols=2), Sym('wv', 'control')]
        s.params = list(s.params) + [Sym('Pm', 'control', rows=2, cols=3, value=[[Fr(10 * r + c, 4) for c in range(3 * N)] for r in range(2)])]
        s.cons = [Con('<=', X(0) + Vg('Vm', 1) + Pg('Pm', 5), 3), Con('>=', Vg('Vm', 2) * X(1), Pg('Pm', 0) - 6), Con('<=', Vg('wv') + Vg('Vm', 3), 4, include_last=False),
                  Con('==', at_t0(X(0)), 1)]
        add(fam.with_horizon(s, H[1]), Cfg(method, N=N, M=1, intg=intg or 'rk', grid=fam.G_UNI, degree=2, scheme='radau'))
    # seeded random constraint sets over random models (configuration side widened; values stay symbolic)
    from .. import randspec
    nrand = 8 if tier == 'quick' else 160
    rr = random.Random(seed * 7919 + 404)
    for ri in range(nrand):
        method, intg = rr.choice([('MS', 'rk'), ('MS', 'rk'), ('SS', 'rk'), ('DC', None), ('DC', None), ('MS', 'expl_euler'), ('SS', 'expl_euler')])
        if method == 'DC' and rr.random() < 0.4:
            s = fam.random_dae(rr)
        elif method != 'DC' and rr.random() < 0.2:
            s = fam.random_diffeq(rr)
            intg = 'rk'
        else:
            s = fam.random_ode(rr)
        N = rr.choice([1, 2, 2, 3, 3, 4])
        M = rr.choice([1, 1, 2, 2, 3]) if method != 'SS' else rr.choice([1, 2])
        if method == 'SS':
            N = min(N, 3)
        s.cons = randspec.random_constraints(rr, s, method, M)
        g = rr.choice(grids)
        if g == 'fun':
            g = fam.G_FUN(N)
        h = rr.choice(H[1:])       # numeric t0 = 0 makes t-products vanish at the first node (decision-free instances)
        degree, scheme = rr.choice([(2, 'radau'), (3, 'radau'), (2, 'legendre'), (1, 'radau'), (1, 'legendre'), (4, 'radau'), (3, 'legendre')])
        if method == 'DC' and not fam.rational_tables(degree, scheme) and not fam.horizon_symbolic(h):
            h = rr.choice(Hsym)
        if not s.cons:
            continue
        add(fam.with_horizon(s, h), Cfg(method, N=N, M=M, intg=intg or 'rk', grid=g, degree=degree, scheme=scheme), soft=True, family='random')
    # a constraint that cannot be placed must be rejected, not ignored
    for method in ('MS', 'SS'):
        s = copy.deepcopy(fam.ode_core()[0])
        s.cons = [Con('<=', X(0), 3, grid='integrator_roots')]
        add(s, Cfg(method, N=2, M=1, intg='rk'), expect='reject-or-rows', may_raise=True)
    return items


def tautology(ch, term):
    """is `term <= 0` valid (for all values)?  decided by the solver"""
    z3 = ch.z3
    ch.s.push()
    ch.s.add(emb(term) > 0)
    ch.s.set('timeout', 3000)
    try:
        r = str(ch.s.check())
    except z3.Z3Exception:
        r = 'unknown'
    ch.s.set('timeout', ch.timeout_ms)
    ch.s.pop()
    ch.stats['queries'] += 1
    return r == 'unsat'


def run(item):
    spec, cfg = item['spec'], item['cfg']
    built = None
    if item.get('rehorizon'):
        from .common import rehorizon_built
        built = rehorizon_built(spec, cfg, item['rehorizon'], poly=item.get('poly', False))
    inst = Inst(spec, cfg, seed=item.get('seed', 0), poly=item.get('poly', False), built=built, solver=built is None,
                extra_outputs=lambda b: [])
    ch = Checker(inst)
    viol = []
    mut = item.get('mut')

    def V(key, label, detail, pt=None):
        viol.append(describe_violation(inst, PROP, '%s|%s' % (key, cfg.method), label, detail, pt))

    def ref_atoms(tr):
        r = Ref(tr)
        at = []
        if cfg.method == 'MS':
            at += rsh.gap_atoms(tr)
        elif cfg.method == 'DC':
            at += rco.dyn_atoms(tr)
        cs = r.constraint_atoms()
        if mut == 'drop_last_instance' and cs:
            cs = cs[:-1]
        at += cs
        at += r.horizon_atoms()
        return at
    refa = multi(inst, ref_atoms)
    # constant-true reference atoms are dropped by rockit as well (no change of the feasible set)
    keep = []
    z3 = inst.z3
    for j, (kind, term, label) in enumerate(refa['z']):
        if isinstance(term, RZ) and term.k is not None:
            if (kind == 'le' and term.k <= 0) or (kind == 'eq' and term.k == 0):
                continue
        else:
            # identically true after cancellation (x - x, 0*x): no restriction of the feasible set either
            st = z3.simplify(emb(term))
            if z3.is_rational_value(st):
                v = st.numerator_as_long() / st.denominator_as_long()
                if (kind == 'le' and v <= 0) or (kind == 'eq' and v == 0):
                    continue
        keep.append(j)
    refa = {d: [refa[d][j] for j in keep] for d in refa}
    impa = impl_atoms(inst)
    pairs, un_ref, un_impl = ch.match(refa, impa)
    if item.get('expect') == 'reject-or-rows':
        # accepted and silently dropped?
        for j in un_ref:
            if refa['z'][j][2].startswith('con'):
                V('unplaceable-ignored', refa['z'][j][2], "constraint with grid='integrator_roots' was accepted by a method without collocation points but no NLP row was generated", inst.pts[0])
                break
    else:
        for j in un_ref:
            lab = refa['z'][j][2]
            if refa['z'][j][0] == 'le' and tautology(ch, refa['z'][j][1]):
                # e.g. x*x >= 0: CasADi folds the relation to `true` and rockit drops it; the feasible set is unchanged
                ch.stats['tautologies_dropped'] = ch.stats.get('tautologies_dropped', 0) + 1
                continue
            kind = 'missing-instance' if lab.startswith('con') else 'dyn-row-missing'
            what = lab.split('@')[-1].rstrip('0123456789.') if lab.startswith('con') else lab.split('[')[0]
            if lab.startswith('con') and '@node%d' % cfg.N in lab:
                what = 'final-node'
            V('%s:%s' % (kind, what), lab, 'expected constraint instance has no equal NLP row (bounds and sense included)', inst.pts[0])
    mv = model_vars(inst, ch)
    for i in un_impl:
        vs = ch._vars(impa['z'][i][1])
        if vs & mv:
            V('extra-row', 'row %d' % impa['z'][i][2], 'NLP row matches no declared constraint instance and restricts model variables %s' % sorted(vs & mv)[:5], inst.pts[0])
    # jacobian row count == number of NLP rows
    try:
        J = inst.b.ocp.jacobian()
        if J.shape[0] != inst.nlp.ng:
            V('jacobian-rows', 'jacobian', 'ocp.jacobian() has %d rows, NLP has %d' % (J.shape[0], inst.nlp.ng))
    except Exception as e:
        pass
    twins_ok = twins_bad = 0
    if not mut and item.get('expect') is None and len(Ref(inst.traj(0)).constraint_atoms()) > 0:
        ch2 = Checker(inst, timeout_ms=5000)

        # twin: the complete multiset minus one (matched, model-restricting) constraint instance must leave an unmatched NLP row
        cand = [(j, i) for j, i in pairs if refa['z'][j][2].startswith('con') and ch2._vars(impa['z'][i][1]) & mv]
        if cand:
            jdrop = cand[-1][0]
            rt = {d: [refa[d][j] for j in range(len(refa[d])) if j != jdrop] for d in refa}
            _, _, un_i2 = ch2.match(rt, impa, far=False)
            extra = [i for i in un_i2 if ch2._vars(impa['z'][i][1]) & mv]
            if extra:
                twins_ok += 1
            elif not ch2.inconclusive:
                twins_bad += 1
    if viol and item.get('family') == 'random' and getattr(inst.pool, 'tiny', 0.0):
        # e.g. (t - DT) with t = DT up to rounding: CasADi keeps 1e-17 * f(x), the exact reference has 0
        from ..sx2smt import Unsupported
        raise Unsupported('random instance with a floating-point cancellation residue (%.1e) among the folded constants: comparison undecidable, IEEE rounding is outside the claim' % inst.pool.tiny)
    r = result(inst, ch, {'violations': viol, 'twins_ok': twins_ok, 'twins_bad': twins_bad,
                          'shape': '%s|%s|%s' % (cfg.tag(), spec.t0[0] + '/' + spec.T[0], repr(spec.cons)),
                          'sample': {'cfg': cfg.tag(), 'horizon': [spec.t0[0], spec.T[0]],
                                     'constraints': [(c.op, repr(c.lhs), repr(c.mid), repr(c.rhs), c.grid, c.include_first, c.include_last) for c in spec.cons][:8],
                                     'nlp_rows': inst.nlp.ng, 'reference_atoms': len(refa['z']), 'matched': len(pairs)}})
    if viol:
        r['status'] = 'violation'
    return r
