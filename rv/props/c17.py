"""C17 B-spline signals and SplineMethod trajectories are exact splines of the model."""
import copy
import random
from fractions import Fraction as Fr

import casadi as ca
import numpy as np

from .. import families as fam
from ..dsl import Cfg, Spec, Sym
from ..extract import quiet
from ..match import close
from ..ref import bspline as rb
from ..sx2smt import SXProgram, ConstPool, Z3Domain, RefZ3Domain, FloatDomain, emb, Unsupported

PROP = 'C17'
LEVEL = 'other'
META = {
    'rule': 'kernel instances = (degree d in 0..4, breakpoint vector xi (uniform / two non-uniform rational), knot span): the real micro_spline kernels are executed with a SYMBOLIC evaluation point tau and SYMBOLIC '
            'coefficients on the concrete rational knots and proven equal (z3, all tau, all coefficients) to the Cox-de Boor reference: basis values in every span, values at the breakpoints, partition of unity, '
            'derivative identity d/dtau(C.B_d) == dx/dtau * (C\'.B_{d-1}) with C\' from bspline_derivative, Greville points = knot averages.  signal instances = (order, N, grid, refine, method): '
            'sample(sig, control, refine) and sample(der(sig)) of a bspline variable are proven equal to the reference spline / derivative spline of the NLP coefficient variables in physical time. distinct by (shape,label)',
    'functions': ['rockit/splines/micro_spline.py:eval_basis_knotindex/eval_basis_knotindex_subgrid/eval_on_knots/bspline_derivative/get_greville_points',
                  'rockit/sampling_method.py:BSplineSignal (sample, der, get_der, register), add_variables_V (bspline variables)', 'rockit/stage.py:variable(grid=bspline)/der/_grid_control(refine)'],
    'bounds': 'degree 0..4; breakpoints: uniform N in {1,2,4,6}, two non-uniform rational vectors; symbolic tau in [0,1) per span; signals: order 0..3, N<=4, refine<=3, SplineMethod (values, gist = coefficients at Greville points, der), MS and DC (values on the refined integrator grid), SplineMethod integrator chain p\'=v, v\'=u; uniform and geometric grids, free and fixed T; FreeGrid (knots are decision variables): the combination is rejected, or the samples and der() samples are compared (ground, two concrete decision vectors) with the spline on the control grid those vectors describe',
    'outside': 'fully symbolic knots (z3 answers unknown); complete row bijection of the SplineMethod NLP (only coefficient relations, refined samples and presence of path-constraint rows are checked); '
               '"same optimal trajectories as shooting" (a statement about optimisers); IEEE rounding (the 1+eps workaround in micro_spline is identified with 1)',
    'assumptions': ['reals for floats; constants identified up to 1e-10', 'coefficient order of a bspline variable = creation order of its NLP variables'],
    'explanation': 'bounded symbolic checking of the real spline kernels with symbolic evaluation point and coefficients against Cox-de Boor, decided by z3',
}

XIS = {
    'uniform1': [Fr(0), Fr(1)],
    'uniform2': [Fr(k, 2) for k in range(3)],
    'uniform4': [Fr(k, 4) for k in range(5)],
    'uniform6': [Fr(k, 6) for k in range(7)],
    'nonuni3': [Fr(0), Fr(1, 6), Fr(1, 2), Fr(1)],
    'nonuni4': [Fr(0), Fr(1, 10), Fr(3, 10), Fr(7, 10), Fr(1)],
}


def instances(tier, seed):
    items = []

    def add(**kw):
        items.append(dict(id='%s#%d' % (PROP, len(items)), **kw))
    names = ['uniform2', 'uniform4', 'nonuni3'] if tier == 'quick' else list(XIS)
    for nm in names:
        for d in range(0, 5):
            add(kind='kernel', xi=nm, d=d)
    n = 0
    for order in (0, 1, 2, 3):
        for method in ('SM', 'MS', 'DC'):
            for rep in range(1 if tier == 'quick' else 3):
                N = [2, 3, 4][n % 3]
                grid = [fam.G_UNI, fam.G_GEO_LOC][n % 2]
                T = [('num', Fr(2)), ('free', Fr(3, 2))][(n // 2) % 2]
                add(kind='signal', order=order, method=method, N=N, grid=grid, T=T, refine=[2, 3][n % 2])
                n += 1
    for method in ('MS', 'DC'):
        add(kind='signal', order=2, method=method, N=2, grid=fam.G_UNI, T=('num', Fr(2)), refine=2, der=True)
        add(kind='signal', order=2, method=method, N=3, grid=fam.G_GEO_LOC, T=('free', Fr(3, 2)), refine=None)
        add(kind='signal', order=1, method=method, N=2, grid=fam.G_UNI, T=('num', Fr(2)), refine=None, der=True)
        # the stage that is solved was created from a template carrying the signal (and its derivative)
        add(kind='signal', order=2, method=method, N=2, grid=fam.G_UNI, T=('num', Fr(2)), refine=2, der=True, clone=True)
        # coefficients through the 'gist' grid and a guess for the signal under the shooting/collocation methods
        add(kind='signal', order=2, method=method, N=3, grid=fam.G_GEO_LOC, T=('free', Fr(3, 2)), refine=2, gist=True)
        # sampled at the collocation points; constrained at every integrator point
        if method == 'DC':
            add(kind='signal', order=2, method='DC', N=2, M=2, grid=fam.G_UNI, T=('num', Fr(2)), refine=None, der=True, sgrid='integrator_roots')
            add(kind='signal', order=3, method='DC', N=3, M=1, grid=fam.G_GEO_LOC, T=('free', Fr(3, 2)), refine=None, der=True, sgrid='integrator_roots')
        add(kind='signal', order=2, method=method, N=2, M=2, grid=fam.G_UNI, T=('num', Fr(2)), refine=None, der=True, intg_con=True)
        # several integrator steps per control interval: the derivative signal is evaluated in the control interval the step belongs to
        add(kind='signal', order=2, method=method, N=2, M=2, grid=fam.G_UNI, T=('num', Fr(2)), refine=None, der=True)
        add(kind='signal', order=3, method=method, N=3, M=[3, 2][method == 'DC'], grid=fam.G_GEO_LOC, T=('free', Fr(3, 2)), refine=2, der=True)
    # a grid whose knots are DECISION variables (FreeGrid): the signal must be the spline on the knots of the control grid actually used, or be rejected
    for method in ('MS', 'DC'):
        add(kind='signal', order=2, method=method, N=3, grid=fam.G_FREE, T=('num', Fr(2)), refine=None, reject_ok=True)
        add(kind='signal', order=1, method=method, N=2, grid=fam.G_FREE, T=('free', Fr(3, 2)), refine=2, der=True, reject_ok=True)
        add(kind='signal', order=2, method=method, N=3, grid=fam.G_FREE, T=('num', Fr(2)), refine=None, der=True, reject_ok=True, param=True)
    # bspline signals INSIDE the dynamics next to other parameters / variables of the stage (layout of the integrator's parameter vector)
    for what in ('parameter', 'variable'):
        for N, grid, T in ((3, fam.G_UNI, ('num', Fr(2))), (2, fam.G_GEO_LOC, ('free', Fr(3, 2)))):
            add(kind='signal-dynamics', what=what, order=[1, 2][N % 2], N=N, grid=grid, T=T)
    add(kind='signal-dynamics', what='both', order=2, N=3, grid=fam.G_UNI, T=('num', Fr(2)))
    add(kind='signal-dynamics', what='both', order=1, N=2, grid=fam.G_GEO_LOC, T=('free', Fr(3, 2)))
    # DirectCollocation: the signal inside the dynamics is taken at the collocation time (a bspline parameter alone, and next to a bspline variable)
    add(kind='signal-dynamics', what='parameter', order=2, N=3, grid=fam.G_UNI, T=('num', Fr(2)), method='DC')
    add(kind='signal-dynamics', what='parameter', order=1, N=2, grid=fam.G_GEO_LOC, T=('num', Fr(2)), method='DC')
    add(kind='signal-dynamics', what='both', order=2, N=2, grid=fam.G_UNI, T=('num', Fr(2)), method='DC')
    for rep in range(2 if tier == 'quick' else 6):
        add(kind='chain', N=[2, 3, 4][rep % 3], grid=[fam.G_UNI, fam.G_GEO_LOC][rep % 2], T=[('num', Fr(2)), ('free', Fr(3, 2))][rep % 2], refine=[2, 3][rep % 2])
    # a bspline PARAMETER (coefficients are NLP parameters, kept symbolic) with der(): value and derivative in physical time on fixed knots, horizon != 1
    for method in ('MS', 'DC'):
        add(kind='signal', order=2, method=method, N=2, grid=fam.G_UNI, T=('num', Fr(5, 2)), refine=2, der=True, param=True)
        add(kind='signal', order=3, method=method, N=3, grid=fam.G_GEO_LOC, T=('free', Fr(3, 2)), refine=None, der=True, param=True)
        add(kind='signal', order=1, method=method, N=2, M=2, grid=fam.G_UNI, T=('num', Fr(2)), refine=3, der=True, param=True)
    # DirectCollocation with LEGENDRE points: the signal inside the dynamics is taken at the collocation time of that scheme (the midpoint)
    add(kind='signal-dynamics', what='parameter', order=2, N=3, grid=fam.G_UNI, T=('num', Fr(2)), method='DC', scheme='legendre')
    add(kind='signal-dynamics', what='variable', order=1, N=2, grid=fam.G_GEO_LOC, T=('num', Fr(2)), method='DC', scheme='legendre')
    add(kind='signal-dynamics', what='both', order=2, N=2, grid=fam.G_UNI, T=('num', Fr(2)), method='DC', scheme='legendre')
    return items


class Ctx:
    def __init__(self):
        import z3
        self.z3 = z3
        self.pool = ConstPool()
        self.zdom = Z3Domain(self.pool)
        self.rdom = RefZ3Domain(self.zdom)
        self.fdom = FloatDomain()
        self.s = z3.Solver()
        self.s.set('timeout', 20000)
        self.stats = {'unsat': 0, 'sat': 0, 'unknown': 0, 'queries': 0, 'solver_s': 0.0}
        self.proved, self.viol, self.incon = [], [], []

    def prove(self, label, a, b, key, detail=''):
        import time
        z3 = self.z3
        t_ = time.time()
        self.s.push()
        self.s.add(z3.simplify(emb(a) - emb(b)) != 0)
        r = str(self.s.check())
        m = self.s.model() if r == 'sat' else None
        self.s.pop()
        self.stats[r] += 1
        self.stats['queries'] += 1
        self.stats['solver_s'] += time.time() - t_
        if r == 'unsat':
            self.proved.append(label)
            return True
        if r == 'sat':
            self.viol.append({'property': PROP, 'key': key, 'label': label, 'detail': '%s differs from the reference for some value (model: %s) %s' % (label, str(m)[:200], detail)})
        else:
            self.incon.append({'label': label, 'why': 'solver ' + r})
        return False

    def result(self, shape, sample):
        tw = getattr(self, 'twins', (0, 0))
        res = {'stats': self.stats, 'twins_ok': tw[0], 'twins_bad': tw[1], 'obligations': len(self.proved) + len(self.viol) + len(self.incon), 'discharged': len(self.proved), 'nontrivial': self.proved,
               'violations': self.viol, 'inconclusive': self.incon or None, 'shape': shape, 'sample': sample}
        if self.viol:
            res['status'] = 'violation'
        elif self.incon:
            res['status'] = 'inconclusive'
        return res


def run_kernel(item):
    import z3
    from rockit.splines import micro_spline as ms
    xi = XIS[item['xi']]
    d = item['d']
    N = len(xi) - 1
    ctx = Ctx()
    nb = N + d if d > 0 else N
    xi_dm = ca.DM([float(v) for v in xi]).T
    knots_dm = ca.horzcat(ca.repmat(xi_dm[0], 1, d), xi_dm, ca.repmat(xi_dm[-1], 1, d))
    tau = ca.MX.sym('tau')
    C = ca.MX.sym('C', 1, N + d)
    zt = z3.Real('tau')
    zc = [z3.Real('c%d' % i) for i in range(N + d)]
    ctx.s.add(zt >= 0, zt < 1)
    rc = [ctx.rdom.wrap(v) for v in zc]
    rtau = ctx.rdom.wrap(zt)
    rng = random.Random(item.get('seed', 0))
    key = 'kernel|d=%d' % d
    # K1: basis in every span at symbolic tau
    for span in range(N):
        with quiet():
            basis = ms.eval_basis_knotindex_subgrid(span, tau, knots_dm, d)
        if d == 0:
            basis = basis[:-1, :]
        val = ca.mtimes(C[:, :basis.shape[0]], basis)
        prog = SXProgram([tau, C], [val, ca.sum1(basis)])
        prog.selfcheck(rng)
        out = prog.run(ctx.zdom, [[zt], zc])
        x = ctx.rdom.const(xi[span]) * (1 - rtau) + rtau * ctx.rdom.const(xi[span + 1])
        ref = rb.spline_value(rc[:nb], xi, d, span, x, ctx.rdom)
        ctx.prove('C.B_%d(x(tau)) span %d' % (d, span), out[0][0], ref, key + '|basis')
        ctx.prove('partition of unity span %d' % span, out[1][0], ctx.rdom.const(1), key + '|unity')
        # K3: derivative identity
        if d >= 1:
            with quiet():
                Cd = ms.bspline_derivative(C, xi_dm, d)
                basis_lo = ms.eval_basis_knotindex_subgrid(span, tau, ca.horzcat(ca.repmat(xi_dm[0], 1, d - 1), xi_dm, ca.repmat(xi_dm[-1], 1, d - 1)), d - 1)
            if d - 1 == 0:
                basis_lo = basis_lo[:-1, :]
            dval = ca.jacobian(val, tau)
            rhs = ca.mtimes(Cd[:, :basis_lo.shape[0]], basis_lo) * float(xi[span + 1] - xi[span])
            p2 = SXProgram([tau, C], [dval, rhs])
            p2.selfcheck(rng)
            o2 = p2.run(ctx.zdom, [[zt], zc])
            ctx.prove("d/dtau (C.B_%d) == dx/dtau * (C'.B_%d) span %d" % (d, d - 1, span), o2[0][0], o2[1][0], key + '|derivative')
            # and C' are the textbook derivative coefficients
            refd = rb.derivative_coeffs(rc[:nb], xi, d, ctx.rdom)
            refv = rb.spline_value(refd, xi, d - 1, span, x, ctx.rdom)
            ctx.prove("C'.B_%d == reference derivative spline, span %d" % (d - 1, span), o2[1][0], refv * ctx.rdom.const(xi[span + 1] - xi[span]), key + '|derivative-coeffs')
    # K2: values on the breakpoints (eval_on_knots)
    with quiet():
        kk, B = ms.eval_on_knots(xi_dm, d)
    Bm = ca.DM(B)
    valk = ca.mtimes(C[:, :Bm.shape[0]], ca.MX(Bm))
    pk = SXProgram([C], [valk])
    ok_ = pk.run(ctx.zdom, [zc])[0]
    for i in range(N + 1):
        span = min(i, N - 1)
        x = ctx.rdom.const(xi[i])
        ref = rb.spline_value(rc[:nb], xi, d, span, x, ctx.rdom)
        if d == 0 and i == N:
            continue     # a piecewise constant has no value of its own at the final breakpoint
        ctx.prove('eval_on_knots value at breakpoint %d' % i, ok_[i], ref, key + '|knots')
    # K5: Greville points
    with quiet():
        g = ms.get_greville_points(xi_dm, d)
    gv = [float(v) for v in np.array(ca.DM(g)).flatten()]
    gr = rb.greville(xi, d)
    if len(gv) != len(gr) or not all(close(a, float(b), 1e-12) for a, b in zip(gv, gr)):
        ctx.viol.append({'property': PROP, 'key': key + '|greville', 'label': 'greville', 'detail': 'get_greville_points gives %s, knot averages are %s' % (gv, [float(v) for v in gr])})
    else:
        ctx.proved.append('greville points == knot averages (ground)')
    return ctx.result('kernel %s d=%d' % (item['xi'], d), {'kind': 'kernel', 'xi': [str(v) for v in xi], 'degree': d, 'proved': len(ctx.proved)})


def _trace(ocp, outs, ctx):
    import z3
    opti = ocp._method.opti
    syms = [s_ for s_ in opti.advanced.symvar()]
    prog = SXProgram(syms, outs)
    prog.selfcheck(random.Random(1))
    zin = [[z3.Real('%s_%d' % (s_.name(), j)) for j in range(s_.numel())] for s_ in syms]
    return prog, zin, prog.run(ctx.zdom, zin)


def _isvar(z3, e):
    e = z3.simplify(e)
    return z3.is_const(e) and e.decl().kind() == z3.Z3_OP_UNINTERPRETED


def run_signal(item):
    import z3
    from ..extract import Ocp, MultipleShooting, DirectCollocation, FreeTime, make_grid
    from rockit import SplineMethod
    order, method, N, refine = item['order'], item['method'], item['N'], item['refine']
    ctx = Ctx()
    Tk = item['T']
    t0v = Fr(1, 2)
    key = 'signal|order=%d|%s' % (order, method)
    xi = [Fr(float(v)).limit_denominator(10 ** 6) for v in np.array(ca.DM(make_grid(item['grid'])(0, 1, N))).flatten()]
    nb = N + order if order > 0 else N
    try:
        with quiet():
            if item.get('clone'):
                # declared on a template stage; the problem solved is a stage created FROM that template (signals travel with the clone)
                from rockit import Stage
                ocp = Stage(t0=float(t0v), T=FreeTime(float(Tk[1])) if Tk[0] == 'free' else float(Tk[1]))
            else:
                ocp = Ocp(t0=float(t0v), T=FreeTime(float(Tk[1])) if Tk[0] == 'free' else float(Tk[1]))
            if item.get('param'):
                # the signal is a PARAMETER with given coefficients
                sig = ocp.parameter(grid='bspline', order=order)
                ocp.set_value(sig, ca.DM([[0.3 + 0.7 * ((3 * j_) % 5) for j_ in range(N + order)]]))
            else:
                sig = ocp.variable(grid='bspline', order=order)
            want_der = order >= 1 and (method == 'SM' or item.get('der'))
            dsig = ocp.der(sig) if want_der else None
            d2sig = ocp.der(dsig) if (dsig is not None and order >= 2 and method == 'SM') else None      # declared before the first transcription
            grid = make_grid(item['grid'])
            if method == 'SM':
                ocp.subject_to(ocp.at_t0(sig) == 0)
                ocp.add_objective(-ocp.at_tf(sig) + ocp.T)
                if dsig is not None:
                    ocp.subject_to(dsig <= 2)
                ocp.method(SplineMethod(N=N, grid=grid))
            else:
                x = ocp.state()
                u = ocp.control()
                ocp.set_der(x, u + sig)
                ocp.add_objective(ocp.integral(sig * sig + u * u) + ocp.T)
                ocp.subject_to(ocp.at_t0(x) == 0)
                if dsig is not None and not item.get('param'):
                    ocp.subject_to(dsig <= 2)       # (for a parameter signal this would be a constraint without decision variables)
                if item.get('intg_con'):
                    # path constraints on the signal (and its derivative) imposed at every integrator point
                    ocp.subject_to(sig <= 0.8125, grid='integrator')
                    if dsig is not None:
                        ocp.subject_to(dsig >= -3.25, grid='integrator')
                if item.get('gist'):
                    ocp.set_initial(sig, 0.3125)
                    # a second, VECTOR-valued signal: the coefficients of one of its components through the gist grid
                    bv = ocp.variable(2, grid='bspline', order=order)
                    ocp.add_objective(ocp.integral(bv[0] * bv[0] + bv[1] * bv[1]))
                ocp.method(MultipleShooting(N=N, M=item.get('M', 1), grid=grid) if method == 'MS' else DirectCollocation(N=N, M=item.get('M', 1), grid=grid, degree=2))
            master = ocp
            if item.get('clone'):
                master = Ocp()
                ocp = master.stage(ocp)
            master.solver('ipopt')
            if method == 'SM':
                ts, ss = ocp.sample(sig, grid='control', refine=refine)
                tg, cg = ocp.sample(sig, grid='gist')
                outs = [ts, ss, ocp.value(ocp.T), tg, cg]
                if dsig is not None:
                    outs += [ocp.sample(dsig, grid='gist')[1], ocp.sample(dsig, grid='control', refine=refine)[1]]
                if d2sig is not None:
                    # der applied twice: second derivative in physical time
                    outs += [ocp.sample(d2sig, grid='control', refine=refine)[1]]
            else:
                rkw = {'refine': refine} if refine else {}       # refine=None: the plain integrator grid
                sgrid = item.get('sgrid', 'integrator')          # 'integrator_roots': the collocation points (DirectCollocation)
                ts, ss = ocp.sample(sig, grid=sgrid, **rkw)
                outs = [ts, ss, ocp.value(ocp.T)]
                if dsig is not None:
                    outs += [ocp.sample(dsig, grid=sgrid, **rkw)[1]]
                else:
                    outs += [ca.MX(0, 1)]
                if item.get('gist'):
                    # the coefficients and their Greville times through the 'gist' grid; a constant guess given BEFORE the transcription
                    tg, cg = ocp.sample(sig, grid='gist')
                    outs += [tg, cg]
                    comp_syms = [[s_.name() + str(s_.shape) for s_ in ca.symvar(ocp.sample(bv[j_], grid='gist')[1])] for j_ in (0, 1)]
                    comp_n = [ocp.sample(bv[j_], grid='gist')[1].numel() for j_ in (0, 1)]
                    opti_ = master._method.opti
                    gist_start = [float(v) for v in np.array(opti_.debug.value(cg, opti_.initial())).flatten()]
                if item.get('intg_con'):
                    outs += [master._method.opti.g]
                    opti_ = master._method.opti
                    bnds_num = (np.array(opti_.debug.value(opti_.ubg, opti_.initial())).flatten(), np.array(opti_.debug.value(opti_.lbg, opti_.initial())).flatten())
            if item.get('reject_ok'):
                outs += [ocp.sample(ocp.t, grid='control')[1], ocp.sample(sig, grid='gist')[1]]
            prog, zin, out = _trace(master, outs, ctx)
    except Unsupported:
        raise
    except Exception as e:
        if item.get('reject_ok') and 'bspline' in str(e).lower():
            # no fixed knot vector exists: declining the combination is the expected answer
            ctx.proved.append('rejected: %s' % str(e).strip().splitlines()[-1][:120])
            return ctx.result('signal order=%d %s free knots' % (order, method), {'kind': 'signal', 'rejected': str(e).strip().splitlines()[-1][:200]})
        ctx.viol.append({'property': PROP, 'key': 'raises|%s|order>=1 with der' % method if item.get('der') else 'raises|%s' % method, 'label': 'bspline variable order %d%s under %s' % (order, ' with der()' if item.get('der') else '', method),
                         'detail': 'declaring/transcribing/sampling raised: %s' % str(e).strip().splitlines()[-1][:200]})
        return ctx.result('signal order=%d %s' % (order, method), {'kind': 'signal', 'raised': True})
    if item.get('reject_ok'):
        # accepted: the knots are whatever control grid the decision vector describes.  Decided on two concrete decision vectors (generic, increasing
        # control times): every reported sample must be the Cox-de Boor value, on the knots of THAT control grid, of the reported coefficients.
        rg = random.Random(17)
        bad = None
        for trial in range(2):
            fin = [[rg.uniform(0.3, 1.2) for _ in grp] for grp in zin]
            fo = prog.run(ctx.fdom, fin)
            tcs, cfs = [float(v) for v in fo[-2]], [float(v) for v in fo[-1]]
            if len(tcs) != N + 1 or any(tcs[k + 1] <= tcs[k] for k in range(N)):
                continue
            xs = [Fr(v).limit_denominator(10 ** 9) for v in tcs]
            dcf = rb.derivative_coeffs(cfs[:nb], xs, order, ctx.fdom) if dsig is not None else None      # knots in physical time: derivative in physical time
            for j_, (tv, sv) in enumerate(zip(fo[0], fo[1])):
                xv = Fr(float(tv)).limit_denominator(10 ** 9)
                if xv >= xs[-1]:
                    continue
                span = max([i for i in range(N) if xs[i] <= xv] or [0])
                want = rb.spline_value(cfs[:nb], xs, order, span, float(xv), ctx.fdom)
                if abs(float(want) - float(sv)) > 1e-7 * (1 + abs(float(want))):
                    bad = ('sample', float(tv), float(sv), float(want), tcs)
                    break
                if dcf is not None:
                    wd = rb.spline_value(dcf, xs, order - 1, span, float(xv), ctx.fdom)
                    if abs(float(wd) - float(fo[3][j_])) > 1e-7 * (1 + abs(float(wd))):
                        bad = ('der() sample', float(tv), float(fo[3][j_]), float(wd), tcs)
                        break
            else:
                ctx.proved.append('free knots, decision vector %d: samples are the spline on the control grid used (ground)' % trial)
            if bad:
                break
        if bad:
            ctx.viol.append({'property': PROP, 'key': key + '|free-knots', 'label': 'sample(sig) under FreeGrid',
                             'detail': 'the signal was accepted on a grid with free knots, but at t=%.6g its %s %.9g is not the value %.9g of the spline of the gist coefficients on the control-grid knots %s '
                                       '(it is a spline on equidistant knots, reported at the times of another grid)' % (bad[1], bad[0], bad[2], bad[3], [round(v, 6) for v in bad[4]])})
        return ctx.result('signal order=%d %s free knots' % (order, method), {'kind': 'signal', 'free_knots': True, 'accepted': True})
    tsz, ssz, Tz = out[0], out[1], out[2][0]
    ctx.s.add(Tz > 0)
    rT = ctx.rdom.wrap(Tz)
    flat = [v for grp in zin for v in grp]
    if method == 'SM':
        cz = out[4]
        if len(cz) != N + order or not all(_isvar(z3, c) for c in cz):
            ctx.viol.append({'property': PROP, 'key': key + '|gist', 'label': 'gist', 'detail': "sample(sig,'gist') should be the N+order=%d coefficient variables, got %s" % (N + order, [str(c)[:30] for c in cz])})
            return ctx.result('signal', {'kind': 'signal'})
        coeff = list(cz)
        gr = rb.greville(xi, order)
        for i, g_ in enumerate(gr):
            ctx.prove('gist time[%d] == t0+T*greville' % i, out[3][i], ctx.rdom.const(t0v) + rT * ctx.rdom.const(g_), key + '|greville')
    else:
        cv = {}
        for v in ssz:
            st = [v]
            seen = set()
            while st:
                e = st.pop()
                if e.get_id() in seen:
                    continue
                seen.add(e.get_id())
                if z3.is_const(e) and e.decl().kind() == z3.Z3_OP_UNINTERPRETED:
                    cv[str(e)] = e
                st.extend(e.children())
        coeff = [v for v in flat if str(v) in cv]
        if item.get('gist'):
            cz = out[5]
            if len(cz) != N + order or not all(_isvar(z3, c) for c in cz) or {str(c) for c in cz} != {str(c) for c in coeff}:
                ctx.viol.append({'property': PROP, 'key': key + '|gist', 'label': 'gist', 'detail': "sample(sig,'gist') should be the N+order=%d coefficient variables the samples depend on, got %s" % (N + order, [str(c)[:30] for c in cz])})
                return ctx.result('signal', {'kind': 'signal'})
            coeff = list(cz)         # the value proofs below use the coefficients in the order the gist grid reports them
            if len(out[4]) != N + order:
                ctx.viol.append({'property': PROP, 'key': key + '|greville', 'label': 'gist times', 'detail': "sample(sig,'gist') reports %d times for %d coefficients" % (len(out[4]), N + order)})
                return ctx.result('signal', {'kind': 'signal'})
            for i, g_ in enumerate(rb.greville(xi, order)):
                ctx.prove('gist time[%d] == t0+T*greville' % i, out[4][i], ctx.rdom.const(t0v) + rT * ctx.rdom.const(g_), key + '|greville')
            if comp_n == [N + order, N + order] and all(len(c_) == 1 for c_ in comp_syms):
                ctx.proved.append("gist of a component of a vector-valued signal: N+order coefficients of that signal's variable (ground)")
            else:
                ctx.viol.append({'property': PROP, 'key': key + '|gist-component', 'label': 'gist(bv[j])', 'detail': 'coefficient counts %s, symbols %s' % (comp_n, comp_syms)})
            if all(abs(v - 0.3125) < 1e-12 for v in gist_start):
                ctx.proved.append('constant guess reaches every coefficient (ground)')
            else:
                ctx.viol.append({'property': PROP, 'key': key + '|guess', 'label': 'set_initial(sig, 0.3125)', 'detail': 'coefficients start at %s' % gist_start})
        if len(coeff) != N + order:
            ctx.viol.append({'property': PROP, 'key': key + '|coeff-count', 'label': 'coefficients', 'detail': 'sampled bspline signal of order %d on N=%d depends on %d NLP variables, expected N+order=%d' % (order, N, len(coeff), N + order)})
            return ctx.result('signal order=%d %s' % (order, method), {'kind': 'signal'})
    rc = [ctx.rdom.wrap(v) for v in coeff]
    npts = len(ssz)
    refd = rb.derivative_coeffs(rc[:nb], xi, order, ctx.rdom) if order >= 1 else None
    # normalised positions of the reported sample times are read off numerically (under SplineMethod a refined
    # non-uniform grid is the grid object called with N*refine, not a subdivision), then proven symbolically
    fin = [[0.37 + 0.01 * j for j in range(len(grp))] for grp in zin]
    fo = prog.run(ctx.fdom, fin)
    Tf = fo[2][0]
    pos = [Fr((tv - float(t0v)) / Tf).limit_denominator(10 ** 5) for tv in fo[0]]
    roots_ = method != 'SM' and item.get('sgrid') == 'integrator_roots'
    if (not roots_ and (pos[0] != 0 or pos[-1] != 1)) or any(pos[j + 1] <= pos[j] for j in range(len(pos) - 1)) or pos[0] < 0 or pos[-1] > 1:
        ctx.viol.append({'property': PROP, 'key': key + '|time-range', 'label': 'times', 'detail': 'reported sample times are not an increasing sequence from t0 to t0+T: normalised %s' % [str(p_) for p_ in pos]})
    for j in range(npts):
        xj = pos[j]
        span = max([i for i in range(N) if xi[i] <= xj] or [0])
        ctx.prove('time[%d]' % j, tsz[j], ctx.rdom.const(t0v) + rT * ctx.rdom.const(xj), key + '|time')
        if order == 0 and j == npts - 1:
            continue
        ref = rb.spline_value(rc[:nb], xi, order, span, ctx.rdom.const(xj), ctx.rdom)
        ctx.prove('sample(sig,refine=%s)[%d]' % (refine, j), ssz[j], ref, key + '|value')
        if dsig is not None and not (order - 1 == 0 and j == npts - 1):
            rv = rb.spline_value(refd, xi, order - 1, span, ctx.rdom.const(xj), ctx.rdom)
            dv = out[6][j] if method == 'SM' else out[3][j]
            # derivative in PHYSICAL time: d/dt = (1/T) d/dxi ; compare T*der == d/dxi
            ctx.prove('T*sample(der(sig))[%d]' % j, dv * Tz, rv, key + '|derivative')
            if method == 'SM' and order >= 2 and not (order - 2 == 0 and j == npts - 1):
                refd2 = rb.derivative_coeffs(refd, xi, order - 1, ctx.rdom)
                rv2 = rb.spline_value(refd2, xi, order - 2, span, ctx.rdom.const(xj), ctx.rdom)
                ctx.prove('T^2*sample(der(der(sig)))[%d]' % j, out[7][j] * Tz * Tz, rv2, key + '|second-derivative')
    if method != 'SM' and item.get('intg_con'):
        # every integrator point carries a row  sig <= 0.8125  (and  der(sig) >= -3.25): body = the spline value at that point
        gz, ubz, lbz = out[4], bnds_num[0], bnds_num[1]
        for nm, vals_, bnd, which in (('sig<=0.8125', ssz, 0.8125, ubz), ('der(sig)>=-3.25', out[3] if dsig is not None else None, -3.25, lbz)):
            if vals_ is None:
                continue
            for j in range(npts):
                hit = False
                for r_ in range(len(gz)):
                    if not abs(float(which[r_]) - bnd) < 1e-9:
                        continue
                    ctx.s.push()
                    ctx.s.add(z3.simplify(gz[r_] - vals_[j]) != 0)
                    rr_ = str(ctx.s.check())
                    ctx.s.pop()
                    if rr_ == 'unsat':
                        hit = True
                        break
                if hit:
                    ctx.proved.append('row %s at integrator point %d' % (nm, j))
                else:
                    ctx.viol.append({'property': PROP, 'key': key + '|integrator-constraint', 'label': '%s @ point %d' % (nm, j),
                                     'detail': "no NLP row imposes %s at integrator point %d (grid='integrator' path constraint on a bspline signal)" % (nm, j)})
    if order >= 1 and npts > 2:
        # twin (vacuity): the reference spline with the coefficient order reversed must be told apart
        rtw = 'unsat'
        for j in list(range(1, npts - 1)) + [0]:       # (a symmetric position, e.g. the middle knot of two intervals, cannot tell the two apart)
            xj = pos[j]
            span = max([i for i in range(N) if xi[i] <= xj] or [0])
            wrong = rb.spline_value(list(reversed(rc[:nb])), xi, order, span, ctx.rdom.const(xj), ctx.rdom)
            ctx.s.push()
            ctx.s.add(z3.simplify(ssz[j] - emb(wrong)) != 0)
            rtw = str(ctx.s.check())
            ctx.s.pop()
            if rtw == 'sat':
                break
        ctx.twins = (1, 0) if rtw == 'sat' else (0, 1)
    if method == 'SM' and dsig is not None:
        for i, c in enumerate(refd):
            ctx.prove('T*gist(der(sig))[%d]' % i, out[5][i] * Tz, c, key + '|derivative-coeffs')
    return ctx.result('signal order=%d %s N=%d refine=%s %s' % (order, method, N, refine, Tk[0]),
                      {'kind': 'signal', 'order': order, 'method': method, 'N': N, 'refine': refine, 'T': Tk[0], 'grid': item['grid'][0], 'proved': len(ctx.proved)})


def run_chain(item):
    """SplineMethod on an integrator chain p' = v, v' = u: dynamics hold identically in time"""
    import z3
    from ..extract import Ocp, FreeTime, make_grid
    from rockit import SplineMethod
    N, refine = item['N'], item['refine']
    ctx = Ctx()
    Tk = item['T']
    key = 'chain|SplineMethod'
    xi = [Fr(float(v)).limit_denominator(10 ** 6) for v in np.array(ca.DM(make_grid(item['grid'])(0, 1, N))).flatten()]
    with quiet():
        ocp = Ocp(t0=0, T=FreeTime(float(Tk[1])) if Tk[0] == 'free' else float(Tk[1]))
        p = ocp.state()
        v = ocp.state()
        u = ocp.control()
        ocp.set_der(p, v)
        ocp.set_der(v, u)
        ocp.subject_to(-1 <= (u <= 1))
        ocp.subject_to(ocp.at_t0(p) == 0)
        ocp.subject_to(ocp.at_t0(v) == 0)
        ocp.subject_to(ocp.at_tf(p) == Fr(1, 2).__float__())
        ocp.add_objective(ocp.integral(u ** 2) + ocp.T)
        ocp.method(SplineMethod(N=N, grid=make_grid(item['grid'])))
        ocp.solver('ipopt')
        outs = [ocp.value(ocp.T)]
        for q in (p, v, u):
            outs.append(ocp.sample(q, grid='gist')[1])
        for q in (p, v, u):
            outs.append(ocp.sample(q, grid='control', refine=refine)[1])
        outs.append(ocp.sample(p, grid='control', refine=refine)[0])
        prog, zin, out = _trace(ocp, outs, ctx)
    fin = [[0.37 + 0.01 * j for j in range(len(grp))] for grp in zin]
    fo = prog.run(ctx.fdom, fin)
    pos = [Fr(tv / fo[0][0]).limit_denominator(10 ** 5) for tv in fo[7]]
    Tz = out[0][0]
    ctx.s.add(Tz > 0)
    cp, cvv, cu = out[1], out[2], out[3]
    if (len(cp), len(cvv), len(cu)) != (N + 2, N + 1, N):
        ctx.viol.append({'property': PROP, 'key': key + '|degrees', 'label': 'coefficients', 'detail': 'gist sizes %s, expected %s (degrees 2,1,0 on N=%d)' % ((len(cp), len(cvv), len(cu)), (N + 2, N + 1, N), N)})
        return ctx.result('chain', {'kind': 'chain'})
    rp = [ctx.rdom.wrap(c) for c in cp]
    dv = rb.derivative_coeffs(rp, xi, 2, ctx.rdom)
    for i in range(N + 1):
        ctx.prove("T*v_coeff[%d] == (p')_coeff" % i, cvv[i] * Tz, dv[i], key + '|dynamics')
    rv_ = [ctx.rdom.wrap(c) for c in cvv]
    du = rb.derivative_coeffs(rv_, xi, 1, ctx.rdom)
    for i in range(N):
        ctx.prove("T*u_coeff[%d] == (v')_coeff" % i, cu[i] * Tz, du[i], key + '|dynamics')
    for qi, (cs_, deg) in enumerate(((cp, 2), (cvv, 1), (cu, 0))):
        rc = [ctx.rdom.wrap(c) for c in cs_]
        vals = out[4 + qi]
        for j in range(len(vals)):
            xj = pos[j]
            span = max([i for i in range(N) if xi[i] <= xj] or [0])
            if deg == 0 and j == len(vals) - 1:
                continue
            ctx.prove('sample(%s,refine)[%d]' % ('pvu'[qi], j), vals[j], rb.spline_value(rc, xi, deg, span, ctx.rdom.const(xj), ctx.rdom), key + '|value')
    # path constraint -1 <= u <= 1 on every piece of the piecewise constant control
    opti = ocp._method.opti
    gprog = SXProgram([s_ for s_ in opti.advanced.symvar()], [opti.g])
    gz = gprog.run(ctx.zdom, zin)[0]
    for i in range(N):
        hit = any(str(ctx.z3.simplify(g_ - cu[i])) == '0' for g_ in gz)
        if hit:
            ctx.proved.append('path constraint row on u piece %d' % i)
        else:
            ctx.viol.append({'property': PROP, 'key': key + '|path-constraint', 'label': 'u piece %d' % i, 'detail': 'no NLP row constrains control piece %d although -1<=u<=1 is a path constraint' % i})
    return ctx.result('chain N=%d %s %s' % (N, Tk[0], item['grid'][0]), {'kind': 'chain', 'N': N, 'refine': refine, 'T': Tk[0], 'proved': len(ctx.proved)})


def run_signal_dynamics(item):
    """MultipleShooting gap rows with a bspline signal inside the right-hand side, next to a global parameter, a per-interval
    parameter and a global variable: X[k+1] - X[k] - h_k (a*pc_k*U[k] + w + sig(t_k)) with sig(t_k) the sampled signal at the interval start"""
    import z3
    from ..extract import Ocp, MultipleShooting, DirectCollocation, FreeTime, make_grid
    order, N, what, Tk = item['order'], item['N'], item['what'], item['T']
    dc = item.get('method') == 'DC'       # DirectCollocation, one Radau point per interval: the signal is taken at the COLLOCATION time
    leg = dc and item.get('scheme') == 'legendre'
    ctx = Ctx()
    key = 'signal-dynamics|%s|order=%d%s' % (what, order, ('|DC-legendre' if leg else '|DC') if dc else '')
    try:
      with quiet():
          ocp = Ocp(t0=0.5, T=FreeTime(float(Tk[1])) if Tk[0] == 'free' else float(Tk[1]))
          x = ocp.state()
          u = ocp.control()
          a = ocp.parameter()
          pc = ocp.parameter(grid='control')
          w = ocp.variable()
          ncoef = N + order
          sig2 = None
          if what == 'parameter':
              sig = ocp.parameter(grid='bspline', order=order)
              ocp.set_value(sig, ca.DM([0.5 + 0.25 * j for j in range(ncoef)]).T)
          elif what == 'both':
              # a bspline PARAMETER declared before a bspline VARIABLE of another order, and der() of the first one:
              # declaration order, registration order in the method and the layout of the system functions all differ
              sig = ocp.parameter(grid='bspline', order=order)
              ocp.set_value(sig, ca.DM([0.5 + 0.25 * j for j in range(ncoef)]).T)
              sig2 = ocp.variable(grid='bspline', order=max(order - 1, 0))
          else:
              sig = ocp.variable(grid='bspline', order=order)
          ocp.set_value(a, 1.5)
          ocp.set_value(pc, ca.DM([2.0 + j for j in range(N)]).T)
          ocp.set_der(x, a * pc * u + w + sig + (3 * sig2 if sig2 is not None else 0))
          if sig2 is not None:
              ocp.subject_to(ocp.der(sig) + x <= 50)
          shifted = what == 'variable'
          if shifted:
              ocp.subject_to(ocp.next(sig) - sig <= 7)       # the signal inside a shifted operand
          ocp.subject_to(ocp.at_t0(x) == 0)
          ocp.add_objective(ocp.integral(u * u) + w * w + ocp.at_tf(x) + ocp.T)
          if dc:
              ocp.method(DirectCollocation(N=N, M=1, degree=1, scheme=item.get('scheme', 'radau'), grid=make_grid(item['grid'])))
          else:
              ocp.method(MultipleShooting(N=N, M=1, intg='expl_euler', grid=make_grid(item['grid'])))
          ocp.solver('ipopt')
          ts, xs = ocp.sample(x, grid='control')
          us = ocp.sample(u, grid='control-')[1]
          # (collocation: the single Radau point of interval k is its end, t_{k+1}; the sampled spline there is entry k+1 of the control-grid sample)
          ss = ocp.sample(sig + (3 * sig2 if sig2 is not None else 0), grid='control')[1]
          pcs = ocp.sample(pc, grid='control-')[1]
          opti_ = ocp._method.opti
          outs = [ts, xs, us, ss, pcs, ocp.value(a), ocp.value(w), opti_.g]
          if dc:
              outs.append(ocp.sample(x, grid='integrator_roots')[1])      # the helper state at the collocation point of every interval
              if leg:
                  # one Legendre point per interval (the midpoint): the signal there, read through the grid of collocation times
                  outs.append(ocp.sample(sig + (3 * sig2 if sig2 is not None else 0), grid='integrator_roots')[1])
          prog, zin, out = _trace(ocp, outs, ctx)
          # which rows are equalities with zero bounds (bounds may be infinite: evaluated numerically, not translated)
          lbv = np.array(opti_.debug.value(opti_.lbg, opti_.initial())).flatten()
          ubv = np.array(opti_.debug.value(opti_.ubg, opti_.initial())).flatten()
          eqrow = [bool(lbv[i] == 0 and ubv[i] == 0) for i in range(len(lbv))]
    except Unsupported:
        raise
    except Exception as e:
        ctx.viol.append({'property': PROP, 'key': key + '|raises', 'label': 'bspline %s inside the dynamics' % what, 'detail': 'declaring/transcribing raised: %s' % str(e).strip().splitlines()[-1][:200]})
        return ctx.result('signal-dynamics %s order=%d N=%d' % (what, order, N), {'kind': 'signal-dynamics', 'raised': True})
    tz, xz, uz, sz, pz, az, wz, gz = out[0], out[1], out[2], out[3], out[4], out[5][0], out[6][0], out[7]
    fin = [[0.37 + 0.013 * (j + 7 * gi) for j in range(len(grp))] for gi, grp in enumerate(zin)]
    fo = prog.run(ctx.fdom, fin)
    for k in range(N):
        ks_ = k + 1 if dc else k          # where the signal is evaluated: collocation time (= end of the interval) / start of the interval
        xe_, xef_ = (out[8][k], fo[8][k]) if dc else (xz[k + 1], fo[1][k + 1])       # end of the step: helper state (collocation) / next node (shooting)
        sk_, skf_ = (out[9][k], fo[9][k]) if leg else (sz[ks_], fo[3][ks_])
        tau_z, tau_f = (z3.Q(1, 2), 0.5) if leg else (z3.RealVal(1), 1.0)       # collocation time of the single point: midpoint (Legendre) / end (Radau)
        want = xe_ - xz[k] - tau_z * (tz[k + 1] - tz[k]) * (az * pz[k] * uz[k] + wz + sk_)
        wantf = xef_ - fo[1][k] - tau_f * (fo[0][k + 1] - fo[0][k]) * (fo[5][0] * fo[4][k] * fo[2][k] + fo[6][0] + skf_)
        hf_ = tau_f * (fo[0][k + 1] - fo[0][k])
        cands = [i for i in range(len(gz)) if eqrow[i] and (abs(abs(fo[7][i]) - abs(wantf)) <= 1e-9 * max(1.0, abs(wantf)) or (dc and abs(abs(fo[7][i] * hf_) - abs(wantf)) <= 1e-9 * max(1.0, abs(wantf))))]
        ok = False
        for i in cands:
            for sgn in (1, -1):
                ctx.s.push()
                if dc:
                    # the collocation defect is written per unit time ((x_r - x_k)/h - f); with the helper state eliminated through the continuity row
                    # x_{k+1} == x_r it equals the residual above divided by h > 0: compare h * row (helper state substituted) with the residual
                    ctx.s.add((tz[k + 1] - tz[k]) > 0)
                    ctx.s.add(z3.simplify(gz[i] * tau_z * (tz[k + 1] - tz[k]) - sgn * want) != 0)
                else:
                    ctx.s.add(z3.simplify(gz[i] - sgn * want) != 0)
                r = str(ctx.s.check())
                ctx.s.pop()
                ctx.stats[r] += 1
                ctx.stats['queries'] += 1
                if r == 'unsat':
                    ok = True
                    break
            if ok:
                break
        if ok:
            ctx.proved.append('gap row of interval %d == X[k+1]-X[k]-h(a pc_k u_k + w + sig(t_k))' % k)
        else:
            ctx.viol.append({'property': PROP, 'key': key, 'label': 'gap[k=%d]' % k,
                             'detail': 'no equality row of the NLP equals the explicit-Euler gap residual with the bspline %s evaluated at the interval start next to the global parameter, the per-interval parameter and the global variable (%d numerically close candidates)' % (what, len(cands))})
    if shifted:
        for k in range(N):
            wantz = sz[k + 1] - sz[k]
            wantf_ = fo[3][k + 1] - fo[3][k]
            ok = False
            for i in range(len(gz)):
                if eqrow[i] or abs(ubv[i] - 7) > 1e-12 or abs(fo[7][i] - wantf_) > 1e-9 * max(1.0, abs(wantf_)):
                    continue
                ctx.s.push()
                ctx.s.add(z3.simplify(gz[i] - wantz) != 0)
                r = str(ctx.s.check())
                ctx.s.pop()
                ctx.stats[r] += 1
                ctx.stats['queries'] += 1
                if r == 'unsat':
                    ok = True
                    break
            if ok:
                ctx.proved.append('row next(sig)-sig<=7 of interval %d == S[k+1]-S[k]' % k)
            else:
                ctx.viol.append({'property': PROP, 'key': key + '|shifted', 'label': 'next(sig)-sig[k=%d]' % k,
                                 'detail': 'no inequality row with upper bound 7 equals sampled signal at node k+1 minus node k'})
    return ctx.result('signal-dynamics %s order=%d N=%d' % (what, order, N), {'kind': 'signal-dynamics', 'what': what, 'order': order, 'N': N, 'T': Tk[0], 'grid': item['grid'][0], 'proved': len(ctx.proved)})


def run(item):
    if item['kind'] == 'signal-dynamics':
        return run_signal_dynamics(item)
    if item['kind'] == 'kernel':
        return run_kernel(item)
    if item['kind'] == 'chain':
        return run_chain(item)
    return run_signal(item)
