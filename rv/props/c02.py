"""C02 Direct collocation constraints characterise the collocation polynomial."""
import copy
import random
from fractions import Fraction as Fr

from .. import families as fam
from ..dsl import Cfg, leaves, Spec, Sym, X, U, Pg, t, nl1
from ..instance import Inst
from ..match import Checker
from ..ref import collocation as ref
from .common import multi, impl_atoms, model_vars, describe_violation, result

PROP = 'C02'
LEVEL = 'translation_validation'

META = {
    'rule': 'instance = (ODE/DAE model, horizon kinds, degree, scheme, N, M, grid); non-trivial = proven obligation whose term depends on '
            'decision variables; distinct = by (instance shape, obligation label)',
    'functions': ['rockit/direct_collocation.py:DirectCollocation.add_variables/add_constraints', 'rockit/stage.py:Stage._ode/sample/_grid_integrator_roots',
                  'rockit/sampling_method.py:eval_at_integrator/eval_at_integrator_root/get_p_sys'],
    'bounds': 'degree 1..5 x {radau, legendre}; quick N<=3, M<=2; thorough N<=4, M<=3; ODE and semi-explicit DAE nz<=2; all real values of the '
              'decision vector, parameters, t0, T; right-hand sides with uninterpreted markers; structural obligation: the state / algebraic value rockit reports at each collocation point is an NLP variable of its own (pairwise distinct)',
    'outside': 'numeric horizon with irrational tables (degree>=3 radau, >=2 legendre): CasADi folds table/dt into new doubles, so those degrees '
               'are checked with symbolic (free/parametric) horizon only; irrational partitions (global geometric grid) together with irrational tables (a product of two irrational doubles is folded by CasADi); B-spline signals; IEEE rounding',
    'assumptions': ['reals for floats; constants identified up to 1e-10 relative (Lagrange tables are exact rationals of the tau doubles)',
                    'markers stand for arbitrary total functions', 'node times are rockit\'s own sampled control-grid times (C06)'],
}


def instances(tier, seed):
    rng = random.Random(seed + 2)
    items = []

    def add(spec, cfg, **kw):
        items.append(dict(id='%s#%d' % (PROP, len(items)), spec=spec, cfg=cfg, **kw))
    H = fam.HORIZONS
    Hsym = [h for h in H if fam.horizon_symbolic(h)]
    grids = [fam.G_UNI, fam.G_GEO_LOC, fam.G_UNI_LT, fam.G_FREE, fam.G_GEO_GLOB, fam.G_UNI_LT0, 'fun']
    models = fam.dae_core() + fam.ode_core()[:3]
    n = 0
    for scheme in ('radau', 'legendre'):
        for degree in (1, 2, 3, 4, 5):
            for rep in range(2 if tier == 'quick' else 4):
                s = models[n % len(models)]
                N = [2, 1, 3][n % 3]
                M = [1, 2][n % 2]
                g = grids[n % len(grids)]
                if g == 'fun':
                    g = fam.G_FUN(N)
                if not fam.grid_is_rational(g) and not fam.rational_tables(degree, scheme):
                    g = fam.G_GEO_LOC
                h = H[n % len(H)]
                if (not fam.rational_tables(degree, scheme) or not fam.grid_is_rational(g)) and not fam.horizon_symbolic(h):
                    h = Hsym[n % len(Hsym)]
                add(fam.with_horizon(s, h), Cfg('DC', N=N, M=M, degree=degree, scheme=scheme, grid=g))
                n += 1
    # a vector-valued state whose right-hand side is given as ONE scalar (repeated), next to another state
    sb = Spec(nx=3, nu=1, xshape=[(2, 1), (1, 1)], ode=[Pg('a') * t, Pg('a') * t, nl1(X(0)) + U(0) * X(1)], params=[Sym('a', value=2)],
              ode_broadcast={0: Pg('a') * t}, note='scalar right-hand side for a vector state')
    add(fam.with_horizon(sb, H[1]), Cfg('DC', N=2, M=2, degree=2, scheme='radau', grid=fam.G_UNI))
    # a per-interval parameter AND a per-node (include_last) parameter inside the dynamics: each reaches the integrator in its own slot
    spp = Spec(nx=2, nu=1, ode=[nl1(X(1)) * U(0) * Pg('pp') + t * X(0), X(0) - X(1) * Pg('pc') + Pg('pp')], params=[Sym('pc', 'control', value=3), Sym('pp', 'control+', value=Fr(1, 2))], note='control and control+ parameters in the dynamics')
    for method, intg in (('DC', None),):
        add(fam.with_horizon(spp, H[1]), Cfg(method, N=2, M=2, intg=intg or 'rk', grid=fam.G_UNI, degree=2, scheme='radau'))
    # a square MATRIX-valued state with a non-symmetric right-hand side
    sm = Spec(nx=5, nu=1, xshape=[(2, 2), (1, 1)], ode=[X(1) * 2 + t, X(0) - U(0), nl1(X(3)) + X(4), X(2) * X(0), X(1) - X(2)], note='2x2 matrix state, non-symmetric right-hand side')
    add(fam.with_horizon(sm, H[1]), Cfg('DC', N=2, M=1, degree=2, scheme='radau', grid=fam.G_UNI))
    # the horizon changed after a first transcription (set_t0/set_T on a transcribed OCP): the rows are those of the final horizon
    for ri, (degree, scheme, N, M) in enumerate(((2, 'radau', 2, 2), (1, 'legendre', 3, 1), (1, 'radau', 2, 1)) if tier == 'quick' else ((2, 'radau', 2, 2), (1, 'legendre', 3, 1), (1, 'radau', 2, 1), (2, 'radau', 3, 1), (1, 'radau', 1, 3))):
        s = copy.deepcopy(models[ri % len(models)])
        add(fam.with_horizon(s, (('num', Fr(1, 2)), ('num', Fr(2)))), Cfg('DC', N=N, M=M, degree=degree, scheme=scheme, grid=[fam.G_UNI, fam.G_GEO_LOC][ri % 2]),
            rehorizon=(Fr(0), Fr(1)))
    nrand = 10 if tier == 'quick' else 400
    for r in range(nrand):
        s = fam.random_dae(rng) if rng.random() < 0.6 else fam.random_ode(rng)
        degree = rng.choice([1, 2, 3, 4, 5])
        scheme = rng.choice(['radau', 'legendre'])
        big = tier != 'quick'
        N = rng.choice([1, 2, 3] + ([4] if big else []))
        M = rng.choice([1, 2] + ([3] if big else []))
        g = rng.choice(grids)
        if g == 'fun':
            g = fam.G_FUN(N)
        if not fam.grid_is_rational(g) and not fam.rational_tables(degree, scheme):
            g = fam.G_GEO_LOC
        h = rng.choice(H)
        if (not fam.rational_tables(degree, scheme) or not fam.grid_is_rational(g)) and not fam.horizon_symbolic(h):
            h = rng.choice(Hsym)
        add(fam.with_horizon(s, h), Cfg('DC', N=N, M=M, degree=degree, scheme=scheme, grid=g), soft=True, timeout=90)
    return items


def run(item):
    spec, cfg = item['spec'], item['cfg']
    built = None
    if item.get('rehorizon'):
        from .common import rehorizon_built
        built = rehorizon_built(spec, cfg, item['rehorizon'], poly=item.get('poly', False))
    inst = Inst(spec, cfg, seed=item.get('seed', 0), poly=item.get('poly', False), built=built, solver=built is None)
    z3 = inst.z3
    trz = inst.traj('z')
    hyps = []
    ch = Checker(inst, hyps=hyps)
    viol = []
    doms = inst.domains()
    mut = item.get('mut')

    def V(key, label, detail, pt=None):
        viol.append(describe_violation(inst, PROP, '%s|%s%d' % (key, cfg.scheme, cfg.degree), label, detail, pt))

    refa = multi(inst, lambda tr: ref.dyn_atoms(tr, mut=mut))
    impa = impl_atoms(inst)
    pairs, un_ref, un_impl = ch.match(refa, impa)
    for j in un_ref:
        V('dyn-row-missing', refa['z'][j][2], 'no NLP row equals the reference collocation residual (sign free)', inst.pts[0])
    mv = model_vars(inst, ch)
    for i in un_impl:
        vs = ch._vars(impa['z'][i][1])
        if vs & mv:
            V('extra-row', 'row %d' % impa['z'][i][2], 'NLP row outside the collocation equations restricts model variables %s' % sorted(vs & mv)[:5], inst.pts[0])
    # times of the collocation points as reported by sample(..., 'integrator_roots')
    trs = {d: inst.traj(d) for d in doms}
    rt = multi(inst, ref.root_times)
    for n in range(len(rt['z'])):
        ok = ch.prove('tr[%d]' % n, {d: trs[d].tr[n] for d in doms}, {d: rt[d][n] for d in doms})
        if not ok and ch.violations:
            v = ch.violations.pop()
            V('root-time', v['label'], 'sampled collocation time differs from t_start + tau_j*h: %s' % v, inst.pts[v['point']] if v.get('point') is not None else v.get('model'))
    # the state and the algebraic value at every collocation point are unknowns of their own: the reference rows above are written over the
    # quantities rockit itself reports at the roots, so one NLP variable reported (and used) at two different points would go unnoticed there
    for nm, cols in (('state', trz.Xr), ('algebraic', trz.Zr if spec.nz else [])):
        seen = {}
        for n_, col in enumerate(cols):
            for i_, e_ in enumerate(col):
                vs_ = ch._vars(e_)
                ch.stats['queries'] += 1
                if len(vs_) != 1:
                    V('root-unknown:%s' % nm, '%s[%d][%d]' % (nm, n_, i_), 'quantity at collocation point %d depends on %d NLP variables (expected: a variable of its own, possibly scaled)' % (n_, len(vs_)))
                    continue
                v_ = next(iter(vs_))
                if v_ in seen:
                    V('root-unknown:%s' % nm, '%s[%d][%d]' % (nm, n_, i_), 'collocation points %d and %d share the NLP variable %s: the %s value at distinct collocation points must be distinct unknowns' % (seen[v_], n_, v_, nm))
                else:
                    seen[v_] = n_
        if cols:
            ch.proved.append('%s values at the %d collocation points are distinct NLP variables' % (nm, len(cols)))
    # twin: reference with the root time of the previous collocation point must be told apart
    twins_ok = twins_bad = 0
    from .c01 import time_dependent
    if not mut and time_dependent(spec) and cfg.degree >= 2:
        ch2 = Checker(inst, timeout_ms=10000)
        refm = multi(inst, lambda tr: ref.dyn_atoms(tr, mut='root_time'))
        _, un2, _ = ch2.match(refm, impl_atoms(inst), far=False)
        from ..match import close as _close
        differs = any(not _close(a[1], b[1]) for a, b in zip(refm[0], refa[0]))      # the mutation really changes the reference here
        if un2:
            twins_ok += 1
        elif differs:
            twins_bad += 1
        for k in ('unsat', 'sat', 'unknown', 'queries', 'solver_s'):
            ch.stats[k] = ch.stats.get(k, 0) + ch2.stats.get(k, 0)
    r = result(inst, ch, {'violations': viol, 'twins_ok': twins_ok, 'twins_bad': twins_bad,
                          'shape': '%s|nx%d nu%d nz%d|%s|%s' % (cfg.tag(), spec.nx, spec.nu, spec.nz, spec.t0[0] + '/' + spec.T[0], spec.note),
                          'sample': {'cfg': cfg.tag(), 'horizon': [spec.t0[0], spec.T[0]], 'ode': repr(spec.ode), 'alg': repr(spec.alg),
                                     'nlp_rows': inst.nlp.ng, 'nlp_vars': inst.nlp.nx, 'proved': len(ch.proved), 'consts_snapped': inst.pool.snapped}})
    if viol:
        r['status'] = 'violation'
    return r
