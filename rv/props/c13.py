"""C13 The transcription depends only on the final specification, not on its history."""
import copy
import itertools
import random
from fractions import Fraction as Fr

import casadi as ca
import numpy as np

from .. import families as fam
from ..dsl import (Cfg, Spec, Sym, Con, E, X, U, Pg, Vg, t, T, t0, tf, nl1, nl2, at_t0, at_tf, integral, sum_, C)
from ..extract import declare, NLP, make_method, param_value, guess_value, quiet
from ..instance import Inst
from ..match import Checker, close
from ..sx2smt import RockitRaised
from .common import describe_violation, result, compare_nlps, bind_positional

PROP = 'C13'
LEVEL = 'translation_validation'
OPS = ['Q_sample', 'Q_value', 'Q_jac', 'SOLVE', 'SV', 'SVC', 'SI', 'ST', 'CC', 'AO', 'M', 'S', 'T', 'T0', 'TF', 'T0F', 'NV', 'NP', 'SIE', 'SVP', 'SD']
META = {
    'rule': 'instance = history: declare; transcribe; then a sequence over {sample, value, jacobian, solve_limited, set_value, set_initial, subject_to, clear_constraints, '
            'add_objective, method, solver, set_T, set_t0 (number and FreeTime), declaring a NEW variable / a NEW parameter and using it, a time-expression guess, values of a per-interval parameter} of length <=2 (quick, exhaustive) / 3 (thorough, sampled).  The evolved OCP and a FRESH OCP written with the final '
            'specification are both transcribed by the real code; rows and objective must be equal for all x (z3), x0/p/solver iteration limit equal (ground).  Accepted '
            'outcome of an edit after transcription: equal NLP or an exception; silently different = violation.  distinct = by history',
    'functions': ['rockit/ocp.py:_transcribed/_transcribe/_untranscribe/solver/solve_limited', 'rockit/stage.py:_set_transcribed and every mutator (set_T, set_t0, subject_to, clear_constraints, add_objective, method, set_value, set_initial)',
                  'rockit/direct_method.py:main_transcribe/inherit/untranscribe', 'rockit/sampling_method.py:clean/untranscribe'],
    'bounds': 'histories enumerated (not symbolic) up to length 2 exhaustively / 3 sampled over 21 operations x base method in {MS, SS, DC}; N=2, M in {1,2}; explicit histories: discrete-time update rule re-assigned (SN) under MS/SS, clear_constraints over a DirectCollocation specification with constraints of every kind (control, point, integrator, integrator_roots, inf); plus edits (subject_to, add_objective, set_T, clear_constraints) made on a sub-stage of a two-stage OCP after a transcription',
    'outside': 'longer histories; callbacks; external methods; the numeric result of a full solve (only the iteration limit in effect is observed through sol.stats)',
    'assumptions': ['variables of the evolved and the fresh transcription correspond by creation order', 'reals for floats'],
}


def base_spec():
    s = copy.deepcopy(fam.ode_core()[0])
    s.params = list(s.params) + [Sym('b', value=Fr(7, 4))]
    s.objective = [integral(X(0) * X(0) + U(0) * U(0)), at_tf(X(1)) * Pg('a') + Pg('b') * at_t0(X(1))]
    s.cons = [Con('<=', X(0), 3), Con('==', at_t0(X(0)), 1), Con('<=<=', -2, 2, mid=U(0))]
    s.initial = [(X(1), Fr(1, 2))]
    s.t0, s.T = ('num', Fr(0)), ('num', Fr(1))
    return s


def instances(tier, seed):
    rng = random.Random(seed + 13)
    items = []

    def add(**kw):
        items.append(dict(id='%s#%d' % (PROP, len(items)), **kw))
    hist = [[o] for o in OPS] + [list(h) for h in itertools.product(OPS, OPS)]
    if tier != 'quick':
        all3 = [list(h) for h in itertools.product(OPS, OPS, OPS)]
        rng.shuffle(all3)
        hist += all3[:400]
    # queries through an OLD solution object after an edit; the public ocp.transcribe() (explicit histories, not part of the product)
    hist += [['SOLVE', 'T0', 'QOLD'], ['SOLVE', 'ST', 'QOLD'], ['SOLVE', 'T', 'QOLD', 'SOLVE'], ['SOLVE', 'M', 'QOLD'], ['TF', 'TR', 'ST'], ['TR', 'T0'], ['T0F', 'TR', 'AO', 'TR'],
             ['S', 'S0'], ['S', 'SOLVE', 'S0'], ['S', 'S0', 'M'], ['S0', 'S']]
    # edits made on a SUB-STAGE of a multi-stage OCP after a transcription
    for si in (0, 1):
        for op in ('ST', 'AO', 'T', 'CC'):
            add(kind='multistage', stage=si, op=op)
    for op2 in (('ST', 'AO'), ('AO', 'T')):
        add(kind='multistage', stage=1, op=op2)
    # the FIRST query of a multi-stage OCP goes through a sub-stage (stage.sample before any solve): what the user declared stays as it is
    for si in (0, 1):
        add(kind='multistage', stage=si, op=(), first_query='substage')
        add(kind='multistage', stage=si, op='ST', first_query='substage')
    # the method is re-declared after a solve with a grid of ANOTHER density and the same N (checked against the ground truth of the final density:
    # an evolved-versus-fresh comparison inside one process would be blind to state shared between grid objects)
    for N_ in (3, 4):
        add(kind='density-history', N=N_)
    # a callback declared once keeps working (on the CURRENT transcription) after the method is re-declared
    add(kind='callback-history')
    meths = [('MS', 'rk', 1), ('SS', 'rk', 2), ('DC', None, 1)]
    # grids with localized time variables keep their own state in the method object; a grid='inf' constraint keeps per-interval conversions
    hgrids = [fam.G_UNI, fam.G_UNI, fam.G_UNI_LT, fam.G_FREE, fam.G_GEO_LOC_LT, fam.G_UNI_LT0]
    for hi, h in enumerate(hist):
        method, intg, M = meths[hi % 3]
        sp = base_spec()
        if method == 'MS' and hi % 2 == 0:
            sp.cons = list(sp.cons) + [Con('<=', X(0), 5, grid='inf')]
            sp.note = 'with a grid=inf constraint'
        add(history=h, spec=sp, cfg=Cfg(method, N=2, M=M, intg=intg or 'rk', grid=hgrids[(hi // 3) % len(hgrids)], degree=2, scheme='radau'))
    # the public ocp.transcribe() as the very FIRST transcription of an OCP with a free end time: the declaration stays as written
    for mi, (method, intg, M) in enumerate(meths):
        sp = base_spec()
        sp.T = ('free', Fr(3, 2))
        for h in (['TR'], ['TR', 'ST'], ['TR', 'Q_sample', 'TR']):
            add(history=h, spec=sp, cfg=Cfg(method, N=2, M=M, intg=intg or 'rk', grid=fam.G_UNI, degree=2, scheme='radau'), no_initial=True)
    # a first solve attempt made while a parameter still has no value (it raises), then the value is given: the next query is that of a fresh OCP
    for mi, (method, intg, M) in enumerate(meths):
        sp = base_spec()
        [p_ for p_ in sp.params if p_.name == 'a'][0].value = None
        for h in (['SOLVE', 'SV'], ['Q_sample', 'SV', 'SOLVE']):
            add(history=h, spec=sp, cfg=Cfg(method, N=2, M=M, intg=intg or 'rk', grid=fam.G_UNI, degree=2, scheme='radau'), no_initial=True, twin=False, failing_first=True)
    # discrete-time model: an update rule re-assigned after a transcription
    for mi, (method, M) in enumerate((('MS', 2), ('SS', 1), ('MS', 1))):
        sp = copy.deepcopy(fam.diffeq_core()[0])
        sp.objective = [sum_(X(0) * X(0) + U(0) * U(0)), at_tf(X(1))]
        sp.cons = [Con('==', at_t0(X(0)), 1), Con('==', at_t0(X(1)), 0), Con('<=<=', -2, 2, mid=U(0))]
        sp.t0, sp.T = ('num', Fr(1, 2)), ('num', Fr(2))
        for h in (['SN'], ['SOLVE', 'SN'], ['Q_sample', 'SN', 'Q_sample']):
            add(history=h, spec=sp, cfg=Cfg(method, N=2, M=M, intg='rk', grid=fam.G_UNI), twin=False)
    # constraints of EVERY kind are removed by clear_constraints (collocation-point constraints included)
    sp = base_spec()
    sp.cons = list(sp.cons) + [Con('<=', X(1), 4, grid='integrator_roots'), Con('<=', X(0) + X(1), 6, grid='integrator'), Con('<=', X(0), 5, grid='inf')]
    for h in (['CC'], ['SOLVE', 'CC', 'ST'], ['CC', 'AO', 'SOLVE']):
        add(history=h, spec=sp, cfg=Cfg('DC', N=2, M=2, grid=fam.G_UNI, degree=4, scheme='radau'))
    # an Ocp without states or sub-stages (a plain NLP): guesses written in parameters follow values given after a query / a solve
    for h in (['Q', 'SVP'], ['SOLVE', 'SVP', 'SVQ'], ['SVP', 'Q', 'SVQ', 'SOLVE', 'SVP'], ['Q', 'ST', 'SVQ'], ['SOLVE', 'SVQ', 'ST']):
        add(kind='stateless-history', history=h)
    return items


def apply_op(op, b, spec, cfg, state):
    """apply op to the live OCP `b` and to the final specification (spec, cfg).  returns (spec, cfg)"""
    ocp = b.ocp
    n = state['n'] = state.get('n', 0) + 1
    if op == 'Q_sample':
        ocp.sample(ocp.x, grid='control')
    elif op == 'Q_value':
        ocp.value(ocp.T)
    elif op == 'Q_jac':
        ocp.jacobian()
    elif op == 'SOLVE':
        try:
            state['sol'] = ocp.solve_limited()
        except Exception:
            pass
    elif op == 'QOLD':
        # queries through a solution object obtained BEFORE the latest edits: they may answer or refuse, they must not disturb the next solve
        for q in (lambda s_: s_.value(ocp.t0), lambda s_: s_.value(ocp.T), lambda s_: s_.sample(ocp.x, grid='control')):
            try:
                if state.get('sol') is not None:
                    q(state['sol'])
            except Exception:
                pass
    elif op == 'TR':
        ocp.transcribe()         # the public explicit transcription
    elif op == 'SV':
        v = Fr(5 + n, 2)
        ocp.set_value(b.psym['a'], float(v))
        [p for p in spec.params if p.name == 'a'][0].value = v
    elif op == 'SVC':
        # value of a simple concatenation of parameters
        va, vb = Fr(9 + n, 2), Fr(11 + n, 4)
        ocp.set_value(ca.vertcat(b.psym['a'], b.psym['b']), ca.DM([float(va), float(vb)]))
        [p for p in spec.params if p.name == 'a'][0].value = va
        [p for p in spec.params if p.name == 'b'][0].value = vb
    elif op == 'SI':
        v = Fr(3 + n, 4)
        ocp.set_initial(b.xel[0], float(v))
        spec.initial = [(tg, vl) for tg, vl in spec.initial if not (tg.op == 'x' and tg.a[0] == 0)] + [(X(0), v)]
    elif op == 'ST':
        c = Con('>=', X(1), -4 - n)
        ocp.subject_to(b.mx(c.lhs) >= b.mx(c.rhs))
        spec.cons = list(spec.cons) + [c]
    elif op == 'CC':
        ocp.clear_constraints()
        spec.cons = []
    elif op == 'AO':
        term = at_t0(X(1)) * (1 + n)
        ocp.add_objective(b.mx(term))
        spec.objective = list(spec.objective) + [term]
    elif op == 'M':
        cfg = copy.deepcopy(cfg)
        cfg.N = 3 if cfg.N == 2 else 2
        ocp.method(make_method(cfg))
    elif op == 'S':
        state['max_iter'] = 1 + (n % 2)
        ocp.solver('ipopt', {'ipopt.max_iter': state['max_iter'], 'ipopt.print_level': 0, 'print_time': False})
    elif op == 'S0':
        # the solver is declared again WITHOUT options: earlier options are withdrawn (defaults apply)
        state['max_iter'] = None
        ocp.solver('ipopt')
    elif op == 'T':
        v = Fr(2 + n, 2)
        ocp.set_T(float(v))
        spec.T = ('num', v)
    elif op == 'T0':
        v = Fr(n, 4)
        ocp.set_t0(float(v))
        spec.t0 = ('num', v)
    elif op == 'TF':
        from ..extract import FreeTime
        v = Fr(5 + n, 4)
        ocp.set_T(FreeTime(float(v)))          # release the horizon with a guess
        spec.T = ('free', v)
    elif op == 'T0F':
        from ..extract import FreeTime
        v = Fr(n, 8)
        ocp.set_t0(FreeTime(float(v)))
        spec.t0 = ('free', v)
    elif op == 'NV':
        # a NEW decision variable declared after the transcription, used in the objective and in a constraint
        nm = 'nv%d' % n
        b.vsym[nm] = ocp.variable()
        spec.vars = list(spec.vars) + [Sym(nm)]
        term = Vg(nm) * Vg(nm) * (1 + n)
        c = Con('>=', Vg(nm), at_t0(X(1)) - n)
        ocp.add_objective(b.mx(term))
        ocp.subject_to(b.mx(c.lhs) >= b.mx(c.rhs))
        spec.objective = list(spec.objective) + [term]
        spec.cons = list(spec.cons) + [c]
        state['new_vars'] = state.get('new_vars', 0) + 1
    elif op == 'NP':
        # a NEW parameter declared (and given a value) after the transcription, used in a constraint
        nm = 'np%d' % n
        v = Fr(9 + n, 4)
        b.psym[nm] = ocp.parameter()
        ocp.set_value(b.psym[nm], float(v))
        spec.params = list(spec.params) + [Sym(nm, value=v)]
        c = Con('<=', X(1), Pg(nm) + 6)
        ocp.subject_to(b.mx(c.lhs) <= b.mx(c.rhs))
        spec.cons = list(spec.cons) + [c]
    elif op == 'SIE':
        # a guess that is an expression of time
        e = t * (1 + n) + Fr(1, 2)
        ocp.set_initial(b.us[0], b.mx(e))
        spec.initial = [(tg, vl) for tg, vl in spec.initial if not (tg.op == 'u' and tg.a[0] == 0)] + [(U(0), e)]
    elif op == 'SD':
        # the right-hand side of an existing state is re-assigned (same dimensions)
        rhs = X(0) * (1 + n) - X(1) * Pg('pc') + t
        ocp.set_der(b.xs[1], b.mx(rhs))
        spec.ode = [spec.ode[0], rhs]
    elif op == 'SN':
        # the update rule of an existing state of a discrete-time model is re-assigned
        from ..dsl import DTc
        rhs = X(1) * Pg('pc') + DTc * X(0) * (1 + n) + t
        ocp.set_next(b.xs[1], b.mx(rhs))
        spec.nxt = [spec.nxt[0], rhs]
    elif op == 'SVP':
        # values of a per-interval parameter (one column per control interval)
        vals = [Fr(10 * n + k, 4) for k in range(cfg.N)]
        ocp.set_value(b.psym['pc'], ca.DM([[float(v) for v in vals]]))
        [p for p in spec.params if p.name == 'pc'][0].value = [list(vals)]
    else:
        raise ValueError(op)
    return spec, cfg


def iters_in_effect(ocp):
    try:
        with quiet():
            sol = ocp.solve_limited()
        return int(sol.stats['iter_count'])
    except Exception as e:
        return 'raised: %s' % str(e).splitlines()[-1][:80]


def run_multistage(item):
    """transcribe a two-stage OCP, edit one sub-stage, compare with a fresh OCP declared with the final content"""
    from . import c12
    from ..dsl import Con, X, at_tf
    ops = item['op'] if isinstance(item['op'], tuple) else (item['op'],)
    si = item['stage']
    hz = [(('num', Fr(0)), ('num', Fr(1))), (('num', Fr(1)), ('num', Fr(2)))]
    cfgs = [Cfg('MS', N=2, M=1, intg='rk', grid=fam.G_UNI), Cfg('DC', N=2, M=1, degree=2, scheme='radau', grid=fam.G_UNI)]
    stages = [dict(spec=c12.stage_model(i), cfg=cfgs[i], t0=hz[i][0], T=hz[i][1], clone_of=None) for i in range(2)]
    desc = dict(stages=stages, coupling=[('cont', 0, 1), ('wge', 1)], parent=[('w2',)])
    final = copy.deepcopy(desc)
    viol = []
    def declared(m_):
        return [(len(b_.stage.states), len(b_.stage.qstates), len(b_.stage.controls), len(b_.stage.algebraics), sum(len(v_) for v_ in b_.stage._constraints.values()),
                 str(b_.stage._objective)) for b_ in m_.stage_builts]
    with quiet():
        m = c12.build(desc)
        m.ocp.solver('ipopt')
        before = declared(m)
        if item.get('first_query') == 'substage':
            m.stage_builts[si].stage.sample(m.stage_builts[si].xel[0], grid='control')
        else:
            m.ocp._transcribed
            m.ocp.value(m.ocp.objective)       # the objective of the whole problem is read once BEFORE the edits
        after = declared(m)
        if before != after:
            viol.append({'property': PROP, 'key': 'declaration-altered|%s' % (item.get('first_query') or 'ocp'), 'label': 'stage lists', 'cfg': 'MS+DC', 'spec': 'two stages (c12.stage_model)',
                         'detail': 'the first query (%s) changed what the user declared: (states, quadrature states, controls, algebraics, constraints, objective) per stage before %s, after %s' % (
                             'sample on sub-stage %d' % si if item.get('first_query') else 'on the Ocp', before, after)})
        bs = m.stage_builts[si]
        fs = final['stages'][si]
        for n_, op in enumerate(ops):
            if op == 'ST':
                c = Con('<=', X(0), 7 + n_)
                bs.stage.subject_to(bs.mx(c.lhs) <= bs.mx(c.rhs))
                fs['spec'].cons = list(fs['spec'].cons) + [c]
            elif op == 'AO':
                term = at_tf(X(0)) * 3
                bs.stage.add_objective(bs.mx(term))
                fs['spec'].objective = list(fs['spec'].objective) + [term]
            elif op == 'T':
                bs.stage.set_T(2.5)
                fs['T'] = ('num', Fr(5, 2))
            elif op == 'CC':
                bs.stage.clear_constraints()
                fs['spec'].cons = []
    rejected = None
    try:
        E_ = Inst(None, None, seed=item.get('seed', 0), built=m, solver=False, extra_outputs=lambda b: [b.ocp.value(b.w), b.ocp.value(b.w2), b.ocp.value(b.pa), b.ocp.value(b.pb), b.ocp.value(b.ocp.objective)])
    except RockitRaised as e:
        rejected = str(e)
    if rejected:
        # the edits were accepted and only the next transcription raises: accepted only if the freshly written OCP raises as well
        try:
            with quiet():
                mf_ = c12.build(final)
                mf_.ocp.solver('ipopt')
            Inst(None, None, seed=item.get('seed', 0), built=mf_, solver=False)
            fresh_ok = True
        except Exception:
            fresh_ok = False
        res_ = {'stats': {}, 'obligations': 1, 'discharged': 0 if fresh_ok else 1, 'nontrivial': [], 'rejected': rejected, 'shape': 'multistage %s stage%d' % (ops, si),
                'sample': {'history': ['transcribe'] + ['stage%d.%s' % (si, o) for o in ops], 'outcome': 'rejected', 'why': rejected}}
        if fresh_ok:
            res_['status'] = 'violation'
            res_['violations'] = [{'property': PROP, 'key': 'edits-accepted-then-solve-raises|substage-edit:%s' % (ops[-1] if ops else 'query'), 'label': str(ops), 'cfg': 'MS+DC', 'spec': 'two stages (c12.stage_model)',
                                   'detail': 'the edits on sub-stage %d were accepted, the next transcription raises (%s) although a freshly written OCP with the final content transcribes' % (si, rejected)}]
        return res_
    with quiet():
        mf = c12.build(final)
        mf.ocp.solver('ipopt')
    F = Inst(None, None, seed=item.get('seed', 0), built=mf, solver=False, like=E_, bind=bind_positional(), extra_outputs=lambda b: [b.ocp.value(b.w), b.ocp.value(b.w2), b.ocp.value(b.pa), b.ocp.value(b.pb)])
    ch = Checker(E_)
    # value(ocp.objective), read once before the edits and again now, is the cost of the EDITED problem
    if not ch.prove('value(ocp.objective) == f after the edits', {d: E_.view(d)[5][4][0] for d in E_.domains()}, {d: E_.view(d)[0] for d in E_.domains()}) and ch.violations:
        v_ = ch.violations.pop()
        viol.append({'property': PROP, 'key': 'objective-value-stale|substage-edit:%s' % (ops[-1] if ops else 'query'), 'label': 'value(ocp.objective)', 'cfg': 'MS+DC', 'spec': 'two stages (c12.stage_model)',
                     'detail': 'value(ocp.objective) of the evolved OCP (read once before the edits on sub-stage %d, and again after them) is not its NLP objective: %s' % (si, {k: v_.get(k) for k in ('how', 'impl', 'ref')})})
    diffs, npairs = compare_nlps(ch, E_, F, 'evolved', 'fresh')
    for key, label, detail in diffs:
        viol.append({'property': PROP, 'key': '%s|substage-edit:%s' % (key, ops[-1]), 'label': label, 'detail': detail + ' (history: transcribe two-stage OCP, then %s on sub-stage %d)' % (', '.join(ops), si),
                     'cfg': 'MS+DC', 'spec': 'two stages (c12.stage_model)'})
    xe, xf = list(E_.nlp.x0()), list(F.nlp.x0())
    if len(xe) != len(xf) or not all(close(float(a), float(c)) for a, c in zip(xe, xf)):
        viol.append({'property': PROP, 'key': 'x0-differs|substage-edit:%s' % ops[-1], 'label': 'x0', 'detail': 'starting point differs from the fresh multi-stage OCP'})
    r = result(E_, ch, {'violations': viol, 'shape': 'multistage %s stage%d' % (ops, si),
                        'sample': {'history': ['transcribe'] + ['stage%d.%s' % (si, o) for o in ops], 'outcome': 'compared', 'rows': E_.nlp.ng, 'pairs': npairs}})
    if viol:
        r['status'] = 'violation'
    return r


def run_density_history(item):
    """GROUND (DensityGrid integrates its density numerically: not encodable).  declare -> method(DensityGrid(d1)) -> sample -> method(DensityGrid(d2), same N)
    -> sample: the control grid follows d2 (exact antiderivative); then a second, freshly written OCP with d3."""
    import casadi as ca
    import numpy as np
    from rockit import Ocp, MultipleShooting, DirectCollocation
    from rockit.sampling_method import DensityGrid
    N = item['N']
    tau = ca.MX.sym('tau')
    dens = [('1+3 tau^2', 1 + 3 * tau ** 2, lambda s_: (s_ + s_ ** 3) / 2.0), ('4-3 tau', 4 - 3 * tau, lambda s_: (4 * s_ - 1.5 * s_ ** 2) / 2.5), ('1+2 tau', 1 + 2 * tau, lambda s_: (s_ + s_ ** 2) / 2.0)]
    viol, proved = [], []

    def grid_of(ocp):
        with quiet():
            ts = ocp.sample(ocp.t, grid='control')[1]
        return [float(v) for v in np.array(ca.evalf(ts)).flatten()]

    def judge(tag, tv, cum, name):
        shares = [cum((v - 0.5) / 2.0) for v in tv]
        if len(tv) == N + 1 and all(abs(shares[i] - i / N) < 1e-5 for i in range(N + 1)):
            proved.append('%s: control grid equidistributes %s (ground)' % (tag, name))
        else:
            viol.append({'property': PROP, 'key': 'density-history|%s' % tag, 'label': 'DensityGrid(%s), N=%d' % (name, N),
                         'detail': 'control grid %s: cumulative shares of the FINAL density %s at the nodes are %s, expected i/N' % ([round(v, 5) for v in tv], name, [round(v, 5) for v in shares])})
    with quiet():
        ocp = Ocp(t0=0.5, T=2.0)
        x = ocp.state()
        u = ocp.control()
        ocp.set_der(x, u)
        ocp.subject_to(ocp.at_t0(x) == 0)
        ocp.add_objective(ocp.integral(u * u))
        ocp.solver('ipopt')
        ocp.method(MultipleShooting(N=N, M=1, grid=DensityGrid(dens[0][1])))
    judge('first method', grid_of(ocp), dens[0][2], dens[0][0])
    with quiet():
        ocp.method(MultipleShooting(N=N, M=1, grid=DensityGrid(dens[1][1])))
    judge('method re-declared with another density', grid_of(ocp), dens[1][2], dens[1][0])
    with quiet():
        ocp2 = Ocp(t0=0.5, T=2.0)
        x2 = ocp2.state()
        u2 = ocp2.control()
        ocp2.set_der(x2, u2)
        ocp2.add_objective(ocp2.integral(u2 * u2))
        ocp2.solver('ipopt')
        ocp2.method(DirectCollocation(N=N, M=1, degree=2, grid=DensityGrid(dens[2][1])))
    judge('fresh OCP written later in the same process', grid_of(ocp2), dens[2][2], dens[2][0])
    res = {'stats': {'unsat': 0, 'sat': 0, 'unknown': 0, 'queries': 0, 'solver_s': 0.0}, 'obligations': len(proved) + len(viol), 'discharged': len(proved), 'nontrivial': proved, 'violations': viol,
           'twins_ok': 0, 'twins_bad': 0, 'shape': 'density-history N=%d' % N, 'sample': {'history': ['method(DensityGrid d1)', 'sample', 'method(DensityGrid d2)', 'sample', 'new OCP DensityGrid d3'], 'N': N}}
    if viol:
        res['status'] = 'violation'
    return res


def run_callback_history(item):
    """GROUND (the callback is invoked by the numeric solver): declare, method(N=2), callback(f), solve, method(N=3), solve - the second solve must run and hand f
    a solution object of the current transcription (N+1 = 4 control samples)"""
    from rockit import Ocp, MultipleShooting
    viol, proved = [], []
    seen = []
    try:
        with quiet():
            ocp = Ocp(T=1)
            x = ocp.state()
            u = ocp.control()
            ocp.set_der(x, u)
            ocp.add_objective(ocp.integral(u ** 2) + ocp.at_tf(x) ** 2)
            ocp.subject_to(ocp.at_t0(x) == 1)
            ocp.method(MultipleShooting(N=2))
            ocp.solver('ipopt', {'ipopt.max_iter': 2, 'ipopt.print_level': 0, 'print_time': False})
            ocp.callback(lambda it, sol: seen.append(len(np.atleast_1d(sol.sample(x, grid='control')[1]))))
            ocp.solve_limited()
            n1 = len(seen)
            first = list(seen)
            ocp.method(MultipleShooting(N=3))
            ocp.solve_limited()
        if n1 == 0 or len(seen) == n1:
            viol.append({'property': PROP, 'key': 'callback-history|not-called', 'label': 'callback', 'detail': 'callback invocations: %d during the first solve, %d during the solve after method() was re-declared' % (n1, len(seen) - n1)})
        elif set(first) != {3} or set(seen[n1:]) != {4}:
            viol.append({'property': PROP, 'key': 'callback-history|stale-solution', 'label': 'callback', 'detail': 'the callback saw %s control samples in the first solve (N=2: 3 expected) and %s in the second (N=3: 4 expected)' % (sorted(set(first)), sorted(set(seen[n1:])))})
        else:
            proved.append('callback runs on the current transcription after method() was re-declared (ground)')
    except Exception as e:
        viol.append({'property': PROP, 'key': 'callback-history|raises', 'label': 'solve after method()', 'detail': 'declare, method(N=2), callback(f), solve, method(N=3), solve: the second solve raised: %s' % str(e).strip().splitlines()[-1][:200]})
    res = {'stats': {'unsat': 0, 'sat': 0, 'unknown': 0, 'queries': 0, 'solver_s': 0.0}, 'obligations': len(proved) + len(viol), 'discharged': len(proved), 'nontrivial': proved, 'violations': viol,
           'twins_ok': 0, 'twins_bad': 0, 'shape': 'callback-history', 'sample': {'history': ['method(N=2)', 'callback(f)', 'solve', 'method(N=3)', 'solve']}}
    if viol:
        res['status'] = 'violation'
    return res


def run_stateless_history(item):
    """GROUND (evolved versus fresh): an Ocp WITHOUT states, controls or sub-stages (a plain NLP on the default method) whose guesses are written in a
    parameter; the parameter gets new values after a query / a solve.  The starting point and the parameter vector of the next query must be those of a
    fresh OCP declared with the final values."""
    from rockit import Ocp
    hist = item['history']
    viol, proved = [], []

    def build(pv, qv):
        ocp = Ocp()
        v = ocp.variable()
        w = ocp.variable(2)
        p = ocp.parameter()
        q = ocp.parameter(2)
        ocp.add_objective((v * v - p) ** 2 + ca.sumsqr(w - q))
        ocp.subject_to(v >= 0)
        ocp.set_value(p, pv)
        ocp.set_value(q, qv)
        ocp.set_initial(v, 0.5 * p)
        ocp.set_initial(w, ca.vertcat(q[1] + p, 2 * q[0]))
        ocp.solver('ipopt', {'ipopt.max_iter': 3, 'ipopt.print_level': 0, 'print_time': False})
        return ocp, v, w, p, q

    def start(ocp):
        ocp._transcribed
        op_ = ocp._method.opti
        return [float(x_) for x_ in np.array(op_.debug.value(op_.x, op_.initial())).flatten()], [float(x_) for x_ in np.array(op_.debug.value(op_.p, op_.initial())).flatten()]
    try:
        with quiet():
            pv, qv = 4.0, [1.0, 2.0]
            ocp, v, w, p, q = build(pv, qv)
            for op in hist:
                if op == 'SOLVE':
                    ocp.solve_limited()
                elif op == 'Q':
                    ocp.value(v)
                    ocp._transcribed
                elif op == 'SVP':
                    pv = pv + 5.0
                    ocp.set_value(p, pv)
                elif op == 'SVQ':
                    qv = [qv[0] + 1.5, qv[1] - 0.25]
                    ocp.set_value(q, qv)
                elif op == 'ST':
                    ocp.subject_to(v <= 50)
            xe, pe = start(ocp)
            f_ = build(pv, qv)
            if 'ST' in hist:
                f_[0].subject_to(f_[1] <= 50)
            xf, pf = start(f_[0])
        if len(xe) == len(xf) and all(close(a_, b_) for a_, b_ in zip(xe, xf)) and len(pe) == len(pf) and all(close(a_, b_) for a_, b_ in zip(pe, pf)):
            proved.append('stateless Ocp, history %s: starting point and parameter vector equal those of a fresh OCP (ground)' % hist)
        else:
            viol.append({'property': PROP, 'key': 'stateless-history|%s' % ('x0' if xe != xf else 'p'), 'label': str(hist),
                         'detail': 'Ocp with variables only, guesses 0.5*p and [q1+p, 2*q0]; after %s the next query starts at x0=%s with p=%s, a fresh OCP with the final values starts at x0=%s with p=%s' % (hist, xe, pe, xf, pf)})
    except Exception as e:
        viol.append({'property': PROP, 'key': 'stateless-history|raises', 'label': str(hist), 'detail': 'history %s on an Ocp with variables only raised: %s' % (hist, str(e).strip().splitlines()[-1][:200])})
    res = {'stats': {'unsat': 0, 'sat': 0, 'unknown': 0, 'queries': 0, 'solver_s': 0.0}, 'obligations': len(proved) + len(viol), 'discharged': len(proved), 'nontrivial': proved, 'violations': viol,
           'twins_ok': 0, 'twins_bad': 0, 'shape': 'stateless-history', 'sample': {'history': hist}}
    if viol:
        res['status'] = 'violation'
    return res


def run(item):
    if item.get('kind') == 'callback-history':
        return run_callback_history(item)
    if item.get('kind') == 'stateless-history':
        return run_stateless_history(item)
    if item.get('kind') == 'multistage':
        return run_multistage(item)
    if item.get('kind') == 'density-history':
        return run_density_history(item)
    hist = item['history']
    spec, cfg = copy.deepcopy(item['spec']), copy.deepcopy(item['cfg'])
    state = {'max_iter': 0}
    opts0 = {'ipopt.max_iter': 0, 'ipopt.print_level': 0, 'print_time': False}
    viol = []
    rejected = None
    with quiet():
        b = declare(spec, cfg)
        b.ocp.solver('ipopt', dict(opts0))
        declared_before = (len(b.ocp.states), len(b.ocp.controls), sum(len(v) for v in b.ocp.variables.values()))
        if not item.get('no_initial'):
            b.ocp._transcribed          # initial transcription
        try:
            for oi_, op in enumerate(hist):
                if item.get('failing_first') and oi_ == 0:
                    # the specification is incomplete (a parameter without value): this first query is EXPECTED to raise
                    try:
                        apply_op(op, b, spec, cfg, state)
                    except Exception:
                        pass
                    continue
                spec, cfg = apply_op(op, b, spec, cfg, state)
        except Exception as e:
            rejected = 'op raised: %s' % str(e).splitlines()[-1][:120]
    if rejected is None:
        try:
            E_ = Inst(spec, cfg, seed=item.get('seed', 0), built=b, solver=False)
        except RockitRaised as e:
            rejected = 're-transcription raised: %s' % e
    if rejected is not None:
        # an edit that is rejected is an accepted outcome; queries and value/guess updates must never raise
        if all(o in ('Q_sample', 'Q_value', 'Q_jac', 'SOLVE', 'SV', 'SVC', 'SI', 'SIE', 'SVP') for o in hist):
            viol.append({'property': PROP, 'key': 'query-or-update-raised', 'label': str(hist), 'detail': rejected, 'cfg': repr(cfg), 'spec': repr(spec)})
        elif rejected.startswith('re-transcription raised'):
            # every edit call was ACCEPTED, only the next transcription raises: a rejection of the change would have come from the edit itself.
            # Accepted only if the final specification is itself unusable, i.e. a freshly written OCP with it raises as well
            try:
                with quiet():
                    bf_ = declare(spec, cfg)
                    bf_.ocp.solver('ipopt', dict(opts0))
                Inst(spec, cfg, seed=item.get('seed', 0), built=bf_, solver=False)
                fresh_ok = True
            except Exception:
                fresh_ok = False
            if fresh_ok:
                viol.append({'property': PROP, 'key': 'edits-accepted-then-solve-raises', 'label': str(hist), 'cfg': repr(cfg), 'spec': repr(spec),
                             'detail': 'every operation of the history was accepted, the next transcription raises (%s) although a freshly written OCP with the final specification transcribes' % rejected})
        res = {'stats': {}, 'obligations': 1, 'discharged': 0 if viol else 1, 'violations': viol, 'rejected': rejected,
               'shape': 'history %s %s' % (hist, cfg.method), 'nontrivial': [],
               'sample': {'history': hist, 'outcome': 'rejected', 'why': rejected}}
        if viol:
            res['status'] = 'violation'
        return res
    ch = Checker(E_)

    def V(key, label, detail):
        lastedit = [o for o in hist if not o.startswith('Q_') and o != 'SOLVE']
        viol.append(describe_violation(E_, PROP, '%s|after:%s' % (key, lastedit[-1] if lastedit else 'query'), label, detail + ' (history: transcribe, %s)' % ', '.join(hist)))
    # fresh OCP with the final specification
    with quiet():
        bf = declare(spec, cfg)
        if state['max_iter'] is None:
            bf.ocp.solver('ipopt')
        else:
            opts = dict(opts0)
            opts['ipopt.max_iter'] = state['max_iter']
            bf.ocp.solver('ipopt', opts)
    F = Inst(spec, cfg, seed=item.get('seed', 0), built=bf, solver=False, like=E_, bind=bind_positional())
    diffs, npairs = compare_nlps(ch, E_, F, 'evolved', 'fresh')
    for key, label, detail in diffs:
        V(key, label, detail)
    xe, xf = list(E_.nlp.x0()), list(F.nlp.x0())
    if len(xe) != len(xf) or not all(close(float(a), float(c)) for a, c in zip(xe, xf)):
        V('x0-differs', 'x0', 'starting point of the evolved OCP %s differs from the fresh one %s' % ([round(float(v), 4) for v in xe], [round(float(v), 4) for v in xf]))
    pe, pf = list(E_.nlp.pval()), list(F.nlp.pval())
    if len(pe) != len(pf) or not all(close(float(a), float(c)) for a, c in zip(pe, pf)):
        V('p-differs', 'p', 'parameter vector of the evolved OCP %s differs from the fresh one %s' % (pe, pf))
    # solver settings in effect: observed through the iteration limit honoured by solve_limited
    if 'S' in hist or 'M' in hist or 'S0' in hist:
        ie, if_ = iters_in_effect(b.ocp), iters_in_effect(bf.ocp)
        if ie != if_:
            V('solver-options-differ', 'ipopt.max_iter', 'iterations performed by solve_limited: evolved %s, fresh %s (limit set last: %s)' % (ie, if_, state['max_iter']))
        else:
            ch.proved.append('solver options in effect')
    # transcribing never alters what the user declared
    declared_after = (len(b.ocp.states), len(b.ocp.controls), sum(len(v) for v in b.ocp.variables.values()))
    declared_before = (declared_before[0], declared_before[1], declared_before[2] + state.get('new_vars', 0))
    if declared_after != declared_before:
        V('declared-lists-changed', 'states/controls/variables', 'declared lists changed by transcription: %s -> %s' % (declared_before, declared_after))
    else:
        ch.proved.append('declared lists unchanged')
    twins_ok = twins_bad = 0
    if item.get('twin', True) and any(o in ('ST', 'AO', 'T', 'T0', 'TF', 'T0F', 'NV', 'NP', 'SD') for o in hist) and 'M' not in hist and 'CC' not in hist:
        # vacuity guard: against a fresh OCP with the ORIGINAL specification the comparison must fail
        with quiet():
            b0 = declare(item['spec'], item['cfg'])
            b0.ocp.solver('ipopt', dict(opts0))
        ch2 = Checker(E_, timeout_ms=5000)
        from ..sx2smt import HarnessError
        try:
            F0 = Inst(item['spec'], item['cfg'], seed=item.get('seed', 0), built=b0, solver=False, like=E_, bind=bind_positional())
            d0, _ = compare_nlps(ch2, E_, F0, 'evolved', 'original')
        except HarnessError:
            d0 = ['different number of variables']      # e.g. a released horizon adds a decision variable
        if d0:
            twins_ok += 1
        else:
            twins_bad += 1
    r = result(E_, ch, {'violations': viol, 'twins_ok': twins_ok, 'twins_bad': twins_bad, 'shape': 'history %s %s' % (hist, cfg.method),
                        'sample': {'history': hist, 'base': item['cfg'].tag(), 'outcome': 'compared', 'rows': E_.nlp.ng, 'pairs': npairs}})
    if viol:
        r['status'] = 'violation'
    return r
