"""C16 der() is the total time derivative along the declared dynamics."""
import copy
import random
from fractions import Fraction as Fr

import casadi as ca

from .. import families as fam
from ..dsl import (Cfg, Spec, Sym, E, X, U, Pg, Vg, t, T, t0, nl1, nl2, C, ev, leaves)
from ..extract import declare, quiet, Ocp, MXDomain
from ..sx2smt import SXProgram, ConstPool, Z3Domain, RefZ3Domain, FloatDomain, emb, Unsupported

PROP = 'C16'
LEVEL = 'other'
META = {
    'rule': 'instance = (ODE with uninterpreted right-hand side markers, expression e polynomial in states/time/parameters (scalar or vector, degree<=3)).  ocp.der(e) is traced as a function of '
            '(x,u,p,v,t) and proven equal (z3, all values, every right-hand side of the shape) to the reference total derivative d_t e + grad_x e . f obtained by symbolic differentiation of the expression AST; '
            'order-k controls: der^j(u) is the j-th chain member, der^(k+1) raises; der of an expression that depends on a control raises.  distinct by (model, expression)',
    'functions': ['rockit/stage.py:Stage.der/_ode/control(order>=1)/state/set_der'],
    'bounds': 'nx<=3, expressions of degree<=3 with explicit time and parameter dependence, vector-valued (2 entries); control order<=3',
    'outside': 'B-spline signals (C17); expressions e containing non-polynomial functions of the states (the reference differentiates the AST of e; the markers stand for f only); IEEE rounding',
    'assumptions': ['reals for floats', 'markers in the right-hand side stand for arbitrary functions'],
    'explanation': 'bounded symbolic checking: der() output lowered to SX and compared with an independent AST differentiation by z3',
}


def D(e, f, u_const=False):
    """total time derivative of AST e along x' = f (list of AST), p/v constant (u too when u_const)"""
    op = e.op
    if op == 'c':
        return C(0)
    if op == 'u' and u_const:
        return C(0)
    if op == 'x':
        return f[e.a[0]]
    if op == 'q':
        return f.quads[e.a[0]]       # a declared quadrature state: its derivative is its integrand (f is an FList)
    if op == 't':
        return C(1)
    if op in ('p', 'v', 'T', 't0'):
        return C(0)
    if op == '+':
        return D(e.a[0], f, u_const) + D(e.a[1], f, u_const)
    if op == '-':
        return D(e.a[0], f, u_const) - D(e.a[1], f, u_const)
    if op == 'neg':
        return -D(e.a[0], f, u_const)
    if op == '*':
        return D(e.a[0], f, u_const) * e.a[1] + e.a[0] * D(e.a[1], f, u_const)
    if op == '/':
        return (D(e.a[0], f, u_const) * e.a[1] - e.a[0] * D(e.a[1], f, u_const)) / (e.a[1] * e.a[1])
    if op == 'pow':
        n = e.a[1]
        if n == 0:
            return C(0)
        return C(n) * E('pow', e.a[0], n - 1) * D(e.a[0], f, u_const)
    raise Unsupported('reference derivative of %s' % op)


class FList(list):
    """right-hand sides of the states, with the integrands of the declared quadrature states as attribute"""
    quads = ()


def rpoly(rng, lv, depth=2):
    if depth == 0 or rng.random() < 0.3:
        l = rng.choice(lv)
        return l * rng.choice([1, 2, Fr(1, 2), 3]) if rng.random() < 0.4 else l
    a, b = rpoly(rng, lv, depth - 1), rpoly(rng, lv, depth - 1)
    r = rng.random()
    if r < 0.35:
        return a + b
    if r < 0.5:
        return a - b
    if r < 0.9:
        return a * b
    return E('pow', a, 2)


def instances(tier, seed):
    rng = random.Random(seed + 16)
    items = []

    def add(**kw):
        items.append(dict(id='%s#%d' % (PROP, len(items)), **kw))
    models = fam.ode_core()[:3]
    fixed = [X(0) * 2, t, X(0) * t + X(1) * X(1), X(0) * X(1) * t - Pg('a') * t * t, E('pow', X(1), 3) + t * t * X(0), X(0) / (t + 3)]
    for mi, m in enumerate(models):
        pn = [p for p in m.params if p.grid == '' and p.n == 1]
        for e in fixed:
            if ('p', 'a', 0) in leaves(e) and not any(p.name == 'a' for p in m.params):
                continue
            add(kind='expr', spec=m, exprs=[e])
        add(kind='expr', spec=m, exprs=[X(0) * t, X(1) - t * t])         # vector valued
        if mi == 0:
            # the dynamics re-declared after a first der(): on an Ocp and on a free-standing template stage
            ode2 = [X(1) * 3 - X(0) * t, X(0) * X(0) + U(0)]
            for tpl_ in (False, True):
                add(kind='expr', spec=m, exprs=[X(0) * X(1) * t, X(0) * X(0) - t * X(1)], ode2=ode2, template=tpl_)
        # a declared quadrature state inside the expression: its derivative is its integrand
        mq = copy.deepcopy(m)
        mq.quads = [X(0) * X(0) + t]
        from ..dsl import Q
        add(kind='expr', spec=mq, exprs=[Q(0)])
        add(kind='expr', spec=mq, exprs=[Q(0) * X(1) + t * Q(0), X(0) - Q(0) * Q(0)])
        add(kind='control-dependence', spec=m)
    n = 12 if tier == 'quick' else 150
    for i in range(n):
        m = fam.random_ode(rng, nu=rng.choice([0, 1]))
        lv = [X(j) for j in range(m.nx)] + [t, t] + [Pg(p.name) for p in m.params if p.grid == '' and p.n == 1] + [Vg(v.name) for v in m.vars if v.grid == '']
        add(kind='expr', spec=m, exprs=[rpoly(rng, lv, rng.choice([1, 2, 3])) for _ in range(rng.choice([1, 1, 2]))])
    for order in (1, 2, 3):
        add(kind='chain', order=order)
    # B-spline signals: a degree-k signal has exactly k derivatives (the lowest member is piecewise constant)
    for order in (0, 1, 2, 3):
        for what in ('variable', 'parameter'):
            add(kind='signal-chain', order=order, what=what)
    # der() of expressions that MIX several B-spline signals (declared in one order, appearing in another), states and time
    add(kind='signal-expr')
    return items


def run_signal_expr(item):
    """ocp.der(e) for e over (x, t, s1, s2, p3): proven equal (z3, all values of the symbols and of the derivative symbols) to
    d_t e + d_x e . f + sum_i d_{s_i} e . der(s_i), every pairing made through the symbol itself (der of ONE signal is C17's subject)"""
    import z3
    import time
    stats = {'unsat': 0, 'sat': 0, 'unknown': 0, 'queries': 0, 'solver_s': 0.0}
    proved, viol, incon = [], [], []
    with quiet():
        ocp = Ocp(T=2)
        x = ocp.state()
        s1 = ocp.variable(grid='bspline', order=3)
        s2 = ocp.variable(grid='bspline', order=2)
        p3 = ocp.parameter(grid='bspline', order=2)
        f = -x + s1 * p3
        ocp.set_der(x, f)
        t = ocp.t
        sigs = [s1, s2, p3]
        dsig = [ocp.der(q) for q in sigs]
        exprs = [('3*s2 + s1', 3 * s2 + s1), ('s2*s1', s2 * s1), ('p3*s2 - s1*s1*t', p3 * s2 - s1 * s1 * t), ('x*s2 + t*s1 + p3', x * s2 + t * s1 + p3), ('s1 + 3*s2', s1 + 3 * s2),
                 ('vertcat(s2*x, p3 + s1)', ca.vertcat(s2 * x, p3 + s1))]
        outs = []
        for nm, e in exprs:
            try:
                d = ocp.der(e)
            except Exception as ex:
                viol.append({'property': PROP, 'key': 'signal-expr|raises', 'label': 'der(%s)' % nm, 'detail': 'ocp.der raised on an expression of bspline signals, a state and time: %s' % str(ex)[:160]})
                continue
            ref = ca.jtimes(e, x, f) + ca.jtimes(e, t, ca.MX(1))
            for q, dq in zip(sigs, dsig):
                ref = ref + ca.jtimes(e, q, dq)
            outs.append((nm, d - ref))
    syms = [x, t] + sigs + dsig
    if outs:
        prog = SXProgram(syms, [ca.vcat([ca.vec(o) for _, o in outs])])
        prog.selfcheck(random.Random(2))
        zdom = Z3Domain(ConstPool())
        zin = [[z3.Real('a%d_%d' % (i, j)) for j in range(sy.numel())] for i, sy in enumerate(syms)]
        zout = prog.run(zdom, zin)[0]
        sol = z3.Solver()
        sol.set('timeout', 20000)
        k = 0
        for nm, o in outs:
            for j in range(o.numel()):
                t_ = time.time()
                sol.push()
                sol.add(z3.simplify(emb(zout[k])) != 0)
                r = str(sol.check())
                sol.pop()
                stats[r] += 1
                stats['queries'] += 1
                stats['solver_s'] += time.time() - t_
                lab = 'der(%s)[%d]' % (nm, j)
                if r == 'unsat':
                    proved.append(lab)
                elif r == 'sat':
                    viol.append({'property': PROP, 'key': 'signal-expr|der-mismatch', 'label': lab, 'detail': 'ocp.der(e) differs from d_t e + d_x e . f + sum_i d_{s_i} e . der(s_i) (signals declared in the order s1, s2, p3)'})
                else:
                    incon.append({'label': lab, 'why': 'solver ' + r})
                k += 1
    res = {'stats': stats, 'obligations': len(proved) + len(viol) + len(incon), 'discharged': len(proved), 'nontrivial': proved, 'violations': viol, 'inconclusive': incon or None,
           'twins_ok': 0, 'twins_bad': 0, 'shape': 'signal-expr', 'sample': {'kind': 'signal-expr', 'expressions': [nm for nm, _ in exprs]}}
    if viol:
        res['status'] = 'violation'
    elif incon:
        res['status'] = 'inconclusive'
    return res


def run(item):
    if item['kind'] == 'signal-expr':
        return run_signal_expr(item)
    import z3
    import time
    stats = {'unsat': 0, 'sat': 0, 'unknown': 0, 'queries': 0, 'solver_s': 0.0}
    proved, viol, incon = [], [], []
    rng = random.Random(item.get('seed', 0))
    if item['kind'] == 'signal-chain':
        order, what = item['order'], item['what']
        ocp = Ocp()
        x = ocp.state()
        sig = ocp.variable(grid='bspline', order=order) if what == 'variable' else ocp.parameter(grid='bspline', order=order)
        ocp.set_der(x, sig)
        e = sig
        seen = [sig]
        for j in range(1, order + 1):
            try:
                with quiet():
                    e = ocp.der(e)
            except Exception as ex:
                viol.append({'property': PROP, 'key': 'signal-chain-raises-early|order%d' % order, 'label': 'der^%d(%s)' % (j, what), 'detail': 'der^%d of a degree-%d bspline %s raised: %s' % (j, order, what, str(ex)[:100])})
                break
            if any(ca.is_equal(e, q) for q in seen) or not e.is_symbolic():
                viol.append({'property': PROP, 'key': 'signal-chain|order%d' % order, 'label': 'der^%d(%s)' % (j, what), 'detail': 'der^%d of a bspline signal is not a new signal symbol: %s' % (j, e)})
            seen.append(e)
            proved.append('der^%d(%s of degree %d) exists' % (j, what, order))
        if not viol:
            raised = False
            try:
                with quiet():
                    ocp.der(e)
            except Exception:
                raised = True
            if raised:
                proved.append('der^%d(%s of degree %d) raises' % (order + 1, what, order))
            else:
                viol.append({'property': PROP, 'key': 'signal-chain-no-raise|order%d' % order, 'label': 'der^%d(%s)' % (order + 1, what),
                             'detail': 'asking for derivative %d of a degree-%d bspline %s (the piecewise-constant member has none) did not raise' % (order + 1, order, what)})
        res = {'stats': stats, 'obligations': len(proved) + len(viol), 'discharged': len(proved), 'nontrivial': proved, 'violations': viol, 'shape': 'signal chain %s order %d' % (what, order),
               'sample': {'kind': 'signal-chain', 'order': order, 'what': what}}
        if viol:
            res['status'] = 'violation'
        return res
    if item['kind'] == 'chain':
        order = item['order']
        ocp = Ocp()
        x = ocp.state()
        u = ocp.control(order=order)
        ocp.set_der(x, u)
        e = u
        chain = [u]
        ok = True
        for j in range(1, order + 1):
            try:
                with quiet():
                    e = ocp.der(e)
            except Exception as ex:
                viol.append({'property': PROP, 'key': 'chain-raises-early|order%d' % order, 'label': 'der^%d(u)' % j, 'detail': 'der^%d of an order-%d control raised: %s' % (j, order, str(ex)[:100])})
                ok = False
                break
            chain.append(e)
            members = list(ocp.states)[1:] + list(ocp.controls)
            want = members[j] if j < len(members) else None
            if want is None or not ca.is_equal(ca.simplify(e), want, 2):
                # fall back to a solver comparison over the symbols
                f = ca.Function('f', list(ocp.states) + list(ocp.controls), [e - want]).expand()
                dm = f(*[0.3 + 0.1 * i for i in range(f.n_in())])
                if abs(float(dm)) > 1e-12 or ca.jacobian(e - want, ca.vvcat(list(ocp.states) + list(ocp.controls))).nnz() > 0 and not ca.simplify(e - want).is_zero():
                    ok = False
                    viol.append({'property': PROP, 'key': 'chain|order%d' % order, 'label': 'der^%d(u)' % j, 'detail': 'der^%d of an order-%d control is %s, expected chain member %s' % (j, order, e, want)})
            if ok:
                proved.append('der^%d(u) is chain member %d' % (j, j))
        raised = False
        try:
            with quiet():
                ocp.der(e)
        except Exception:
            raised = True
        if not ok:
            pass
        elif raised:
            proved.append('der^%d(u) raises' % (order + 1))
        else:
            viol.append({'property': PROP, 'key': 'chain-no-raise|order%d' % order, 'label': 'der^%d(u)' % (order + 1), 'detail': 'asking for derivative %d of an order-%d control did not raise' % (order + 1, order)})
        res = {'stats': stats, 'obligations': len(proved) + len(viol), 'discharged': len(proved), 'nontrivial': proved, 'violations': viol, 'shape': 'chain order %d' % order,
               'sample': {'kind': 'chain', 'order': order, 'chain': [str(c) for c in chain]}}
        if viol:
            res['status'] = 'violation'
        return res
    spec = item['spec']
    with quiet():
        if item.get('template'):
            # declared on a free-standing template stage (Stage(), no parent Ocp)
            from rockit import Stage as _Stage
            tpl_ = _Stage()
            b = declare(spec, Cfg(), with_method=False, ocp=None, stage=tpl_)
            b.ocp = tpl_
        else:
            b = declare(spec, Cfg(), with_method=False)
    st = b.ocp
    if item.get('ode2'):
        # der() is asked once, then the dynamics are declared AGAIN: der() follows the latest declaration
        with quiet():
            st.der(ca.vcat([b.mx(e) for e in item['exprs']]))
            for xi_, rhs_ in zip(b.xs, item['ode2']):
                st.set_der(xi_, b.mx(rhs_))
        spec = copy.deepcopy(spec)
        spec.ode = list(item['ode2'])
    if item['kind'] == 'control-dependence':
        if not spec.nu:
            return {'stats': stats, 'obligations': 0, 'discharged': 0, 'status': 'skipped', 'why': 'no control'}
        try:
            with quiet():
                st.der(b.xel[0] * b.us[0])
            viol.append({'property': PROP, 'key': 'control-dependence-accepted', 'label': 'der(x*u)', 'detail': 'der of an expression depending on a (piecewise constant) control did not raise'})
        except Exception:
            proved.append('der(x*u) raises')
        res = {'stats': stats, 'obligations': 1, 'discharged': len(proved), 'nontrivial': proved, 'violations': viol, 'shape': 'control-dependence',
               'sample': {'kind': 'control-dependence'}}
        if viol:
            res['status'] = 'violation'
        return res
    exprs = item['exprs']
    with quiet():
        m = ca.vcat([b.mx(e) for e in exprs])
        try:
            dm = st.der(m)
        except Exception as ex:
            return {'stats': stats, 'obligations': 1, 'discharged': 0, 'status': 'violation', 'violations': [{'property': PROP, 'key': 'raises|der', 'label': repr(exprs), 'detail': 'ocp.der raised on a state/time/parameter expression: %s' % str(ex)[:200]}]}
    syms = list(b.xs) + list(b.us) + [b.psym[p.name] for p in spec.params] + [b.vsym[v.name] for v in spec.vars] + list(b.qs) + [st.t]
    prog = SXProgram(syms, [dm])
    prog.selfcheck(rng)
    pool = ConstPool()
    zdom = Z3Domain(pool)
    rdom = RefZ3Domain(zdom)
    fdom = FloatDomain()
    names = ['x%d' % i for i in range(len(b.xs))] + ['u%d' % i for i in range(len(b.us))] + ['p_' + p.name for p in spec.params] + ['v_' + v.name for v in spec.vars] + ['q%d' % i for i in range(len(b.qs))] + ['t']
    zin = [[z3.Real('%s_%d' % (nm, j)) for j in range(s.numel())] for nm, s in zip(names, syms)]
    zout = prog.run(zdom, zin)[0]

    def mk_leaf(vals, wrap):
        xflat = [v for grp in vals[:len(b.xs)] for v in grp]
        off = len(b.xs)
        uflat = [v for grp in vals[off:off + len(b.us)] for v in grp]
        off += len(b.us)
        pd = {p.name: vals[off + i] for i, p in enumerate(spec.params)}
        off += len(spec.params)
        vd = {v.name: vals[off + i] for i, v in enumerate(spec.vars)}
        off += len(spec.vars)
        qd = [vals[off + i][0] for i in range(len(b.qs))]
        tv = vals[-1][0]

        def leaf(op, a):
            if op == 'x':
                return wrap(xflat[a[0]])
            if op == 'u':
                return wrap(uflat[a[0]])
            if op == 'p':
                return wrap(pd[a[0]][a[1]])
            if op == 'v':
                return wrap(vd[a[0]][a[1]])
            if op == 't':
                return wrap(tv)
            if op == 'q':
                return wrap(qd[a[0]])
            raise KeyError(op)
        return leaf
    s = z3.Solver()
    s.set('timeout', 20000)
    s.add(zin[-1][0] >= 0)      # t >= 0: keeps the one rational test expression x/(t+3) away from its pole
    pts = [[[rng.uniform(0.2, 0.9) for _ in range(sy.numel())] for sy in syms] for _ in range(3)]
    fouts = [prog.run(fdom, p)[0] for p in pts]
    for j, e in enumerate(exprs):
        fl_ = FList(spec.ode)
        fl_.quads = list(spec.quads)
        de = D(e, fl_)
        ref_z = ev(de, mk_leaf(zin, rdom.wrap), rdom)
        lab = 'der(%r)' % e
        bad = None
        for pi, p in enumerate(pts):
            rf = ev(de, mk_leaf(p, lambda v: v), fdom)
            if abs(rf - fouts[pi][j]) > 1e-9 * max(1, abs(rf)):
                bad = (pi, fouts[pi][j], rf)
        t_ = time.time()
        s.push()
        s.add(z3.simplify(zout[j] - emb(ref_z)) != 0)
        r = str(s.check())
        s.pop()
        stats[r] += 1
        stats['queries'] += 1
        stats['solver_s'] += time.time() - t_
        if r == 'unsat':
            proved.append(lab)
        elif r == 'sat' or bad:
            viol.append({'property': PROP, 'key': 'der-mismatch', 'label': lab, 'detail': 'ocp.der(e) differs from d_t e + grad_x e . f ; at point %s impl=%s ref=%s' % ((pts[bad[0]], bad[1], bad[2]) if bad else ('(solver model)', None, None)),
                         'spec': repr(spec.ode)})
        else:
            incon.append({'label': lab, 'why': 'solver ' + r})
    # twin: partial derivative in time dropped must be noticed when e depends on t
    twins_ok = twins_bad = 0
    e0 = exprs[0]
    if ('t',) in leaves(e0):
        def Dnot(e, f):
            return D(e, f)
        import rv.props.c16 as me
        fl0_ = FList(spec.ode)
        fl0_.quads = list(spec.quads)
        de = D(E('+', e0, C(0)), fl0_)
        # drop d/dt: evaluate reference with t treated as constant
        def Dc(e):
            if e.op == 't':
                return C(0)
            if e.op in ('c', 'p', 'v'):
                return C(0)
            if e.op == 'x':
                return spec.ode[e.a[0]]
            if e.op == 'q':
                return spec.quads[e.a[0]]
            if e.op in '+-':
                return E(e.op, Dc(e.a[0]), Dc(e.a[1]))
            if e.op == 'neg':
                return -Dc(e.a[0])
            if e.op == '*':
                return Dc(e.a[0]) * e.a[1] + e.a[0] * Dc(e.a[1])
            if e.op == '/':
                return (Dc(e.a[0]) * e.a[1] - e.a[0] * Dc(e.a[1])) / (e.a[1] * e.a[1])
            if e.op == 'pow':
                return C(e.a[1]) * E('pow', e.a[0], e.a[1] - 1) * Dc(e.a[0]) if e.a[1] else C(0)
            raise Unsupported(e.op)
        rf = [ev(Dc(e0), mk_leaf(p, lambda v: v), fdom) for p in pts]
        rt = [ev(D(e0, fl0_), mk_leaf(p, lambda v: v), fdom) for p in pts]
        if any(abs(a - c_) > 1e-9 for a, c_ in zip(rf, rt)):      # the partial time derivative really contributes
            if any(abs(a - fo[0]) > 1e-9 for a, fo in zip(rf, fouts)):
                twins_ok += 1
            else:
                twins_bad += 1
    res = {'stats': stats, 'obligations': len(proved) + len(viol) + len(incon), 'discharged': len(proved), 'nontrivial': proved, 'violations': viol,
           'inconclusive': incon or None, 'twins_ok': twins_ok, 'twins_bad': twins_bad, 'sx_instructions': prog.n_instr,
           'shape': 'ode=%r e=%r' % (spec.ode, exprs), 'sample': {'ode': repr(spec.ode), 'e': repr(exprs), 'der_instr': prog.n_instr}}
    if viol:
        res['status'] = 'violation'
    elif incon:
        res['status'] = 'inconclusive'
    return res
