"""C18 Saving and loading an OCP preserves the problem."""
import copy
import casadi as ca
import numpy as np
import os
import random
import tempfile
from fractions import Fraction as Fr

from .. import families as fam
from ..dsl import (Cfg, Spec, Sym, Con, E, X, U, Z, Pg, Vg, t, T, t0, tf, nl1, nl2, at_t0, at_tf, integral, sum_, nxt, C)
from ..extract import declare, Built, MXDomain, quiet, Ocp
from ..instance import Inst
from ..match import Checker, close
from .common import describe_violation, result, compare_nlps, bind_positional
from .c14 import scaled_models, scaled_dae

PROP = 'C18'
LEVEL = 'translation_validation'
META = {
    'rule': 'instance = (feature-rich model, method, grid, save moment in {before first transcription, after transcription, after transcription followed by an edit}); the OCP returned by Ocp.load(save(ocp)) and the original are '
            'both transcribed by the real code; complete row multisets and objectives proven equal for all x (z3); x0, p, method class/settings, solver name/options, accessor '
            'lists (order and shapes) compared (ground); the original is transcribed again after saving and must still equal itself',
    'functions': ['rockit/ocp.py:save/load/_untranscribe', 'rockit/casadi_helpers.py:rockit_pickle_context/rockit_unpickle_context/HashList/HashDict/HashOrderedDict (__getstate__/__setstate__)',
                  'rockit/stage.py:__deepcopy__ and all declared containers'],
    'bounds': 'features: parameters of all kinds, variables of all kinds, scaling, free/parametric horizon, DAE, offsets, integrals, guesses; MS/SS/DC; N<=3, M<=2',
    'outside': 'multi-stage OCPs beyond two stages (their composition is C12); callbacks; external methods; SplineMethod',
    'assumptions': ['variables of original and loaded transcriptions correspond by creation order', 'reals for floats'],
}


def models():
    out = []
    for s in scaled_models():
        for p_ in s.params:
            if p_.rows > 1 and p_.cols > 1:
                p_.as_numpy = True        # the (non-symmetric) matrix value is handed over as a 2-D numpy array
        out.append(s)
    s = copy.deepcopy(fam.ode_core()[0])
    s.objective = [integral(X(0) * U(0) + t), T * 2 + at_tf(X(1))]
    s.cons = [Con('<=', nxt(X(0)) - X(0), 1), Con('==', at_t0(X(0)), Pg('a')), Con('<=', X(1), 3 + t, grid='integrator'),
              # declaration options of a constraint travel with it
              Con('<=', X(1), 9, include_first=False), Con('>=', X(0), -9, include_last=False, grid='integrator'),
              Con('<=<=', -8, 8, mid=U(0) * X(0), include_first=False, include_last=False)]
    s.initial = [(X(0), t * 2), (U(0), Fr(1, 3))]
    out.append(s)
    return out


def instances(tier, seed):
    rng = random.Random(seed + 18)
    items = []

    def add(**kw):
        items.append(dict(id='%s#%d' % (PROP, len(items)), **kw))
    H = fam.HORIZONS
    grids = [fam.G_UNI, fam.G_GEO_LOC, fam.G_UNI_LT, fam.G_FREE]
    n = 0
    reps = 1 if tier == 'quick' else 6
    for rep in range(reps):
        for method, intg in (('MS', 'rk'), ('SS', 'expl_euler'), ('DC', None)):
            ms = models() + ([scaled_dae()] if method == 'DC' else [])
            for s in ms:
                for when in ('before', 'after', 'edited', 'edited-method', 'load-edit', 'resave'):
                    h = H[n % len(H)]
                    N = [2, 3][n % 2]
                    M = [1, 2][(n // 2) % 2]
                    degree, scheme = [(2, 'radau'), (1, 'legendre'), (3, 'radau')][n % 3]
                    if method == 'DC' and not fam.rational_tables(degree, scheme) and not fam.horizon_symbolic(h):
                        h = H[2]
                    add(spec=fam.with_horizon(s, h), cfg=Cfg(method, N=N, M=M, intg=intg or 'rk', grid=grids[n % 4], degree=degree, scheme=scheme), when=when)
                    n += 1
    # one Radau collocation point per step (its quadrature weight is a corrected table entry) with an integral in the objective
    for when in ('before', 'after'):
        s = copy.deepcopy(models()[-1])
        add(spec=fam.with_horizon(s, H[2]), cfg=Cfg('DC', N=2, M=2, grid=fam.G_UNI, degree=1, scheme='radau'), when=when)
    # parameter values assigned AFTER the transcription (MPC style), one parameter at a time and several at once through a concatenation, then saved
    for mi, (method, intg) in enumerate((('MS', 'rk'), ('DC', None), ('SS', 'rk'))):
        s = copy.deepcopy(models()[-1])
        s.params = list(s.params) + [Sym('b2', value=Fr(3, 2))]
        s.cons = list(s.cons) + [Con('<=', X(1) * Pg('b2'), 12)]
        s.note = 'values set after transcription'
        add(spec=fam.with_horizon(s, H[mi]), cfg=Cfg(method, N=2, M=[1, 2][mi % 2], intg=intg or 'rk', grid=grids[mi], degree=2, scheme='radau'), when='value-after')
    # two names for one quantity (a user variable assigned as horizon) with a guess through each: the later call wins, also after load
    for method in ('MS', 'DC'):
        for when in ('before', 'after'):
            add(kind='alias-guess', method=method, when=when)
    # multi-stage OCPs (two directly declared stages, or a template used twice): saved before / after a transcription / after the master's
    # method object was replaced
    for when in ('before', 'after', 'edited-method'):
        for clones in (False, True):
            add(kind='multistage', when=when, clones=clones)
    # the second stage created ON the first one (a grandchild of the Ocp)
    for when in ('after', 'edited-method'):
        add(kind='multistage', when=when, clones=False, nested=True)
    # the integrator-based grid classes (DensityGrid, DenseEdgesGrid) with localized time variables and interval bounds: the loaded OCP must keep
    # every option of the grid object (relational: the nodes themselves come from a numeric integrator and are constants on both sides)
    for gi, g in enumerate([('density', {'localize_T': True, 'localize_t0': True}), ('dense_edges', {'localize_T': True}),
                            ('density', {'localize_t0': True, 'min': Fr(1, 100), 'max': Fr(5)}), ('dense_edges', {'localize_T': True, 'localize_t0': True})]):
        for mi, (method, intg) in enumerate((('MS', 'rk'), ('DC', None))):
            s = copy.deepcopy(models()[-1])
            s.note = 'integrator-based grid'
            add(spec=fam.with_horizon(s, H[4] if gi % 2 == 0 else H[2]), cfg=Cfg(method, N=[3, 2][mi], M=1, intg=intg or 'rk', grid=g, degree=2, scheme='radau'),
                when=['before', 'after', 'resave', 'load-edit'][(gi + 2 * mi) % 4])
    # seeded random problems (model, constraints, objective, guesses): the relational comparison needs no reference semantics
    from .. import randspec
    rr = random.Random(seed * 7919 + 1818)
    for ri in range(4 if tier == 'quick' else 60):
        method, intg = rr.choice([('MS', 'rk'), ('SS', 'rk'), ('DC', None), ('MS', 'expl_euler'), ('DC', None)])
        s = fam.random_dae(rr) if (method == 'DC' and rr.random() < 0.4) else (fam.random_diffeq(rr) if (method != 'DC' and rr.random() < 0.2) else fam.random_ode(rr))
        N = rr.choice([1, 2, 3])
        M = rr.choice([1, 2]) if method != 'SS' else 1
        h = rr.choice(H[1:])
        s = fam.with_horizon(s, h)
        s.cons = randspec.random_constraints(rr, s, method, M)
        s.objective = randspec.random_objective(rr, s, method)
        s.initial = [(X(0), rr.choice([Fr(3, 2), t * 2 + 1])), (X(s.nx - 1), Fr(-1, 4))] + ([(U(0), 3 - t)] if s.nu else [])
        s.note = 'random problem'
        degree, scheme = rr.choice([(2, 'radau'), (1, 'legendre'), (3, 'radau')])
        if method == 'DC' and not fam.rational_tables(degree, scheme) and not fam.horizon_symbolic(h):
            degree, scheme = 2, 'radau'
        add(spec=s, cfg=Cfg(method, N=N, M=M, intg='rk' if s.nxt is not None else (intg or 'rk'), grid=rr.choice(grids), degree=degree, scheme=scheme),
            when=rr.choice(['before', 'after', 'edited', 'load-edit', 'resave']), soft=True, family='random', twin=False)
    return items


def rebuilt(ocp2, b, spec, cfg):
    """handle for the loaded OCP: symbols taken from the usual accessors, in declaration order"""
    b2 = Built()
    b2.dom = b.dom
    b2.spec, b2.cfg = spec, cfg
    b2.ocp = b2.stage = ocp2
    b2.xs = list(ocp2.states)
    b2.xel = []
    for x in b2.xs:
        for j in range(x.numel()):
            b2.xel.append(x if x.numel() == 1 else x[j])
    b2.us = list(ocp2.controls)
    b2.zs = list(ocp2.algebraics)
    b2.qs = []
    b2.psym, b2.vsym = {}, {}
    for grid in ('', 'control', 'control+'):
        names = [p.name for p in spec.params if p.grid == grid]
        for nm, sym in zip(names, list(ocp2.parameters[grid])):
            b2.psym[nm] = sym
        names = [v.name for v in spec.vars if v.grid == grid]
        for nm, sym in zip(names, list(ocp2.variables[grid])):
            b2.vsym[nm] = sym
    return b2


def run_multistage(item):
    from . import c12
    from rockit import DirectMethod
    when, clones = item['when'], item['clones']
    hz = [(('num', Fr(0)), ('num', Fr(1))), (('num', Fr(1)), ('free', Fr(2)))]
    cfgs = [Cfg('MS', N=2, M=1, intg='rk', grid=fam.G_UNI), Cfg('DC', N=2, M=1, degree=2, scheme='radau', grid=fam.G_UNI)]
    if clones:
        stages = [dict(spec=c12.stage_model(0), cfg=cfgs[0], t0=hz[i][0], T=hz[i][1], clone_of='tpl', pvals={'a': Fr(5 + 2 * i, 4)}) for i in range(2)]
    else:
        stages = [dict(spec=c12.stage_model(i), cfg=cfgs[i], t0=hz[i][0], T=hz[i][1], clone_of=None) for i in range(2)]
        if item.get('nested'):
            stages[1]['nested_in'] = 0
    desc = dict(stages=stages, coupling=[('cont', 0, 1), ('wge', 1)], parent=[('w2',), ('par',)])
    extra = lambda b: [b.ocp.value(b.w), b.ocp.value(b.w2), b.ocp.value(b.pa), b.ocp.value(b.pb)]
    tag = 'multistage|%s|save-%s' % ('clones' if clones else ('nested' if item.get('nested') else 'direct'), when)
    viol = []
    with quiet():
        m = c12.build(desc)
        m.ocp.solver('ipopt', {'ipopt.max_iter': 7})
        if when in ('after', 'edited-method'):
            m.ocp._transcribed
        if when == 'edited-method':
            m.ocp.method(DirectMethod())
            m.ocp.solver('ipopt', {'ipopt.max_iter': 7})
    fd, path = tempfile.mkstemp(suffix='.rockit', prefix='rvc18_')
    os.close(fd)
    try:
        try:
            with quiet():
                m.ocp.save(path)
                ocp2 = Ocp.load(path)
        except Exception as e:
            return {'status': 'violation', 'stats': {}, 'obligations': 1, 'discharged': 0, 'shape': tag,
                    'violations': [{'property': PROP, 'key': 'save-raises|%s' % tag, 'label': 'save/load', 'cfg': 'MS+DC', 'spec': 'two stages',
                                    'detail': 'ocp.save/Ocp.load of a multi-stage OCP raised (%s): %s' % (when, str(e).strip().splitlines()[-1][:200])}]}
    finally:
        if os.path.exists(path):
            os.remove(path)
    O = Inst(None, None, seed=item.get('seed', 0), built=m, solver=False, extra_outputs=extra)
    ch = Checker(O)
    try:
        with quiet():
            m2 = Built()
            m2.ocp = m2.stage = ocp2
            v2, p2 = list(ocp2.variables['']), list(ocp2.parameters[''])
            m2.w, m2.w2, m2.pa, m2.pb = v2[0], v2[1], p2[0], p2[1]
            m2.stage_builts = []
            for bs, st2 in zip(m.stage_builts, list(ocp2.iter_stages())):
                b2 = rebuilt(st2, bs, bs.spec, bs.cfg)
                b2.ocp, b2.stage = ocp2, st2
                m2.stage_builts.append(b2)
        L = Inst(None, None, seed=item.get('seed', 0), built=m2, solver=False, like=O, bind=bind_positional(), extra_outputs=extra)
    except Exception as e:
        viol.append({'property': PROP, 'key': 'loaded-not-transcribable|%s' % tag, 'label': 'load', 'cfg': 'MS+DC', 'spec': 'two stages', 'detail': 'transcribing the loaded multi-stage OCP raised: %s' % str(e)[:300]})
        L = None
    npairs = 0
    if L is not None:
        diffs, npairs = compare_nlps(ch, O, L, 'original', 'loaded')
        for key, label, detail in diffs:
            viol.append({'property': PROP, 'key': '%s|%s' % (key, tag), 'label': label, 'detail': detail, 'cfg': 'MS+DC', 'spec': 'two stages'})
        xa, xb = list(O.nlp.x0()), list(L.nlp.x0())
        if len(xa) != len(xb) or not all(close(float(a), float(c)) for a, c in zip(xa, xb)):
            viol.append({'property': PROP, 'key': 'x0-differs|%s' % tag, 'label': 'x0', 'detail': 'starting point differs after load', 'cfg': 'MS+DC', 'spec': 'two stages'})
        pa, pb = list(O.nlp.pval()), list(L.nlp.pval())
        if len(pa) != len(pb) or not all(close(float(a), float(c)) for a, c in zip(pa, pb)):
            viol.append({'property': PROP, 'key': 'p-differs|%s' % tag, 'label': 'p', 'detail': 'parameter values differ after load: %s vs %s' % (pa, pb), 'cfg': 'MS+DC', 'spec': 'two stages'})
    r = result(O, ch, {'violations': viol, 'twins_ok': 0, 'twins_bad': 0, 'shape': tag, 'sample': {'kind': 'multistage', 'save': when, 'clones': clones, 'rows': O.nlp.ng, 'pairs': npairs}})
    if viol:
        r['status'] = 'violation'
    return r


def run_alias_guess(item):
    """GROUND: v = ocp.variable(); ocp.set_T(v); set_initial(v, 2); set_initial(ocp.T, 3)  (and a time-expression guess for x): the loaded OCP starts
    from the same point as the original (the horizon from the LATER call)"""
    from rockit import MultipleShooting, DirectCollocation
    method, when = item['method'], item['when']
    viol, proved = [], []
    tag = 'alias-guess|%s|save-%s' % (method, when)
    with quiet():
        ocp = Ocp(t0=0)
        v = ocp.variable()
        ocp.set_T(v)
        ocp.subject_to(v >= 0.5)
        x = ocp.state()
        u = ocp.control()
        ocp.set_der(x, u)
        ocp.add_objective(ocp.integral(u * u) + v)
        ocp.subject_to(ocp.at_t0(x) == 0)
        ocp.subject_to(ocp.at_tf(x) == 1)
        ocp.set_initial(v, 2)
        ocp.set_initial(ocp.T, 3)
        ocp.set_initial(x, ocp.t)
        ocp.method(MultipleShooting(N=3) if method == 'MS' else DirectCollocation(N=2, degree=2))
        ocp.solver('ipopt')
        if when == 'after':
            ocp._transcribed
    fd, path = tempfile.mkstemp(suffix='.rockit', prefix='rvc18_')
    os.close(fd)
    try:
        with quiet():
            ocp.save(path)
            ocp2 = Ocp.load(path)
            ocp._transcribed
            ocp2._transcribed
            o1, o2 = ocp._method.opti, ocp2._method.opti
            x1 = [float(a) for a in np.array(o1.debug.value(o1.x, o1.initial())).flatten()]
            x2 = [float(a) for a in np.array(o2.debug.value(o2.x, o2.initial())).flatten()]
            T1 = float(o1.debug.value(ocp.value(ocp.T), o1.initial()))
        if not close(T1, 3.0):
            viol.append({'property': PROP, 'key': 'alias-order|%s' % tag, 'label': 'T', 'cfg': method, 'spec': 'alias', 'detail': 'the original starts the horizon at %r, the later guess was 3' % T1})
        if len(x1) != len(x2) or not all(close(a, c) for a, c in zip(x1, x2)):
            viol.append({'property': PROP, 'key': 'x0-differs|%s' % tag, 'label': 'x0', 'cfg': method, 'spec': 'alias',
                         'detail': 'starting point differs after load: original %s, loaded %s' % ([round(a, 4) for a in x1], [round(a, 4) for a in x2])})
        else:
            proved.append('loaded OCP starts from the same point (horizon guessed through two names)')
    except Exception as e:
        viol.append({'property': PROP, 'key': 'save-raises|%s' % tag, 'label': 'save/load', 'cfg': method, 'spec': 'alias', 'detail': str(e).strip().splitlines()[-1][:200]})
    finally:
        if os.path.exists(path):
            os.remove(path)
    res = {'stats': {'unsat': 0, 'sat': 0, 'unknown': 0, 'queries': 0, 'solver_s': 0.0}, 'obligations': len(proved) + len(viol), 'discharged': len(proved), 'nontrivial': proved, 'violations': viol,
           'twins_ok': 0, 'twins_bad': 0, 'shape': tag, 'sample': {'kind': 'alias-guess', 'method': method, 'save': when}}
    if viol:
        res['status'] = 'violation'
    return res


def run(item):
    if item.get('kind') == 'alias-guess':
        return run_alias_guess(item)
    if item.get('kind') == 'multistage':
        return run_multistage(item)
    spec, cfg, when = item['spec'], item['cfg'], item['when']
    viol = []
    with quiet():
        b = declare(spec, cfg)
        b.ocp.solver('ipopt', {'ipopt.max_iter': 7, 'ipopt.tol': 1e-5})
    O = None
    if when == 'after':
        O = Inst(spec, cfg, seed=item.get('seed', 0), built=b, solver=False)
    if when == 'edited':
        # transcribe, then edit the specification, then save: the stale transcription must not get in the way
        with quiet():
            try:
                b.ocp._transcribed
            except Exception as e:
                from ..runner import DEGENERATE_REJECTIONS
                from ..sx2smt import Unsupported
                if item.get('family') == 'random' and any(m_ in str(e) for m_ in DEGENERATE_REJECTIONS):
                    raise Unsupported('random specification has a decision-free constraint instance, rejected by rockit')
                raise
            extra = Con('<=', X(0), 11)
            b.ocp.subject_to(b.mx(extra.lhs) <= b.mx(extra.rhs))
        spec = copy.deepcopy(spec)
        spec.cons = list(spec.cons) + [extra]
    if when == 'edited-method':
        # transcribe, then replace the method object, then save: the transcription still attached to the OLD method must not get in the way
        from ..extract import make_method
        with quiet():
            try:
                b.ocp._transcribed
            except Exception as e:
                from ..runner import DEGENERATE_REJECTIONS
                from ..sx2smt import Unsupported
                if item.get('family') == 'random' and any(m_ in str(e) for m_ in DEGENERATE_REJECTIONS):
                    raise Unsupported('random specification has a decision-free constraint instance, rejected by rockit')
                raise
            cfg = copy.deepcopy(cfg)
            cfg.N = cfg.N + 1
            b.ocp.method(make_method(cfg))
            b.cfg = cfg
    if when == 'value-after':
        with quiet():
            b.ocp._transcribed
            gp_ = [p_ for p_ in spec.params if p_.grid == '' and p_.n == 1 and p_.name not in ('pt0', 'pT')]
            spec = copy.deepcopy(spec)
            newv = [Fr(7, 4), Fr(5, 4)]
            b.ocp.set_value(ca.vertcat(*[b.psym[p_.name] for p_ in gp_[:2]]), [float(v) for v in newv[:len(gp_[:2])]])
            for p_, v in zip(gp_[:2], newv):
                [q for q in spec.params if q.name == p_.name][0].value = v
            pc_ = [p_ for p_ in spec.params if p_.grid == 'control' and p_.n == 1]
            if pc_:
                b.ocp.set_value(b.psym[pc_[0].name], 2.5)
                [q for q in spec.params if q.name == pc_[0].name][0].value = Fr(5, 2)
    def casadi_pickles():
        import pickle
        try:
            return tuple(pickle.loads(pickle.dumps(ca.DM([1, 2]))).shape) == (2, 1)
        except Exception:
            return False
    pickles_before = casadi_pickles()
    fd, path = tempfile.mkstemp(suffix='.rockit', prefix='rvc18_')
    os.close(fd)
    try:
        try:
            with quiet():
                if when == 'resave':
                    # the SAME file name is written twice: first the problem as declared, then the edited problem; the second load must see the edit
                    b.ocp.save(path)
                    stale = Ocp.load(path)
                    extra = Con('<=', X(0), 11)
                    b.ocp.subject_to(b.mx(extra.lhs) <= b.mx(extra.rhs))
                    spec = copy.deepcopy(spec)
                    spec.cons = list(spec.cons) + [extra]
                    gp_ = [p_ for p_ in spec.params if p_.grid == '' and p_.n == 1 and p_.name not in ('pt0', 'pT')]
                    if gp_:
                        b.ocp.set_value(b.psym[gp_[0].name], 1.75)
                        gp_[0].value = Fr(7, 4)
                b.ocp.save(path)
                ocp2 = Ocp.load(path)
        except Exception as e:
            return {'status': 'violation', 'stats': {}, 'obligations': 1, 'discharged': 0, 'shape': '%s|%s' % (cfg.tag(), when),
                    'violations': [{'property': PROP, 'key': 'save-raises|%s|save-%s' % (cfg.method, when), 'label': 'save/load', 'cfg': repr(cfg), 'spec': spec.note,
                                    'detail': 'ocp.save/Ocp.load raised for a save %s: %s' % ({'edited': 'after a transcription followed by subject_to', 'edited-method': 'after a transcription followed by method(...)', 'after': 'after a transcription', 'before': 'before the first transcription', 'load-edit': 'before the first transcription', 'resave': 'to the same file name before and after an edit', 'value-after': 'after a transcription followed by set_value'}[when], str(e).strip().splitlines()[-1][:200])}]}
    finally:
        if os.path.exists(path):
            os.remove(path)
    if when == 'load-edit':
        # the loaded OCP is a working specification: the same edits, made through its own accessors before its first
        # transcription, must be accepted and mean the same as on the original
        edits = []
        gp = [p_ for p_ in spec.params if p_.grid == '' and p_.n == 1 and p_.name not in ('pt0', 'pT')]
        if gp:
            idx = [q.name for q in spec.params if q.grid == ''].index(gp[0].name)
            edits.append(('set_value', lambda o, idx=idx: o.set_value(list(o.parameters[''])[idx], 1.75)))
        edits.append(('set_initial', lambda o: o.set_initial(list(o.states)[0], 3.5)))
        edits.append(('subject_to', lambda o: o.subject_to(list(o.states)[0] <= 11)))
        for name, lst in (('states', ocp2.states), ('controls', ocp2.controls), ('algebraics', ocp2.algebraics), ("parameters['']", ocp2.parameters['']),
                          ("parameters['control']", ocp2.parameters['control']), ("variables['']", ocp2.variables['']), ("variables['control']", ocp2.variables['control'])):
            for e_ in list(lst):
                if e_ not in lst:
                    viol.append({'property': PROP, 'key': 'accessor-membership|%s|save-%s' % (cfg.method, when), 'label': name, 'cfg': repr(cfg), 'spec': spec.note,
                                 'detail': 'after load, an element of ocp.%s is not recognised as a member of ocp.%s' % (name, name)})
                    break
        for nm, ed in edits:
            with quiet():
                ed(b.ocp)
                try:
                    ed(ocp2)
                except Exception as e:
                    viol.append({'property': PROP, 'key': 'loaded-not-editable:%s|%s|save-%s' % (nm, cfg.method, when), 'label': nm, 'cfg': repr(cfg), 'spec': spec.note,
                                 'detail': '%s through the accessors of the loaded OCP raised (%s) although the same edit is accepted by the original' % (nm, str(e).strip().splitlines()[-1][:160])})
        spec = copy.deepcopy(spec)
        spec.cons = list(spec.cons) + [Con('<=', X(0), 11)]
        if gp:
            [q for q in spec.params if q.name == gp[0].name][0].value = Fr(7, 4)
    if pickles_before and not casadi_pickles():
        viol.append({'property': PROP, 'key': 'process-damaged|%s|save-%s' % (cfg.method, when), 'label': 'pickle(casadi.DM)', 'cfg': repr(cfg), 'spec': spec.note,
                     'detail': "after ocp.save()/Ocp.load(), CasADi objects can no longer be pickled in this process (CasADi's own hooks were removed)"})
    # the original can still be transcribed after saving
    O2 = Inst(spec, cfg, seed=item.get('seed', 0), built=b, solver=False)
    ch = Checker(O2)

    def V(key, label, detail):
        viol.append(describe_violation(O2, PROP, '%s|%s|save-%s' % (key, cfg.method, when), label, detail))
    if O is not None:
        d0, _ = compare_nlps(ch, O2, Inst(spec, cfg, seed=item.get('seed', 0), built=b, solver=False, like=O2, bind=bind_positional()), 'original-after-save', 'original-again')
        # (same object transcribed twice; cheap idempotence check)
        for key, label, detail in d0:
            V('original-damaged:' + key, label, detail)
        xo, xo2 = list(O.nlp.x0()), list(O2.nlp.x0())
        if len(xo) != len(xo2) or not all(close(float(a), float(c)) for a, c in zip(xo, xo2)):
            V('original-damaged:x0', 'x0', 'starting point of the original changed by save()')
        if O.nlp.ng != O2.nlp.ng:
            V('original-damaged:rows', 'ng', 'row count of the original changed by save(): %d -> %d' % (O.nlp.ng, O2.nlp.ng))
    # accessors of the loaded OCP
    acc = [('states', b.ocp.states, ocp2.states), ('controls', b.ocp.controls, ocp2.controls), ('algebraics', b.ocp.algebraics, ocp2.algebraics)]
    for grid in ('', 'control', 'control+'):
        acc.append(('parameters[%r]' % grid, b.ocp.parameters[grid], ocp2.parameters[grid]))
        acc.append(('variables[%r]' % grid, b.ocp.variables[grid], ocp2.variables[grid]))
    for name, lo, ll in acc:
        so = [tuple(e.shape) for e in lo]
        sl = [tuple(e.shape) for e in ll]
        if so != sl:
            V('accessor', name, 'ocp.%s shapes %s, loaded %s' % (name, so, sl))
        else:
            ch.proved.append('accessor ' + name)
    m1, m2 = b.ocp._method, ocp2._method
    ms = [(type(m1).__name__, type(m2).__name__)] + [(getattr(m1, k, None), getattr(m2, k, None)) for k in ('N', 'M', 'intg', 'degree')]
    ms += [(m1._solver, m2._solver), (m1._solver_options, m2._solver_options), (type(m1.time_grid).__name__, type(m2.time_grid).__name__)]
    for a_, c_ in ms:
        if a_ != c_:
            V('method-settings', 'method', 'method/solver setting differs after load: %r vs %r' % (a_, c_))
    ch.proved.append('method+solver settings')
    try:
        b2 = rebuilt(ocp2, b, spec, cfg)
        L = Inst(spec, cfg, seed=item.get('seed', 0), built=b2, solver=False, like=O2, bind=bind_positional())
    except Exception as e:
        V('loaded-not-transcribable', 'load', 'transcribing the loaded OCP raised: %s' % str(e)[:300])
        L = None
    npairs = 0
    if L is not None:
        diffs, npairs = compare_nlps(ch, O2, L, 'original', 'loaded')
        for key, label, detail in diffs:
            V(key, label, detail)
        xa, xb = list(O2.nlp.x0()), list(L.nlp.x0())
        if len(xa) != len(xb) or not all(close(float(a), float(c)) for a, c in zip(xa, xb)):
            V('x0-differs', 'x0', 'starting point differs after load: %s vs %s' % ([round(float(v), 4) for v in xa][:12], [round(float(v), 4) for v in xb][:12]))
        pa, pb = list(O2.nlp.pval()), list(L.nlp.pval())
        if len(pa) != len(pb) or not all(close(float(a), float(c)) for a, c in zip(pa, pb)):
            V('p-differs', 'p', 'parameter values differ after load: %s vs %s' % (pa, pb))
        # ground: the values the parameters carry in the original (after the save) and in the loaded OCP are the ones last assigned
        for who, bb in (('original after save', b), ('loaded', b2)):
            for p_ in spec.params:
                if p_.value is None or p_.grid != '':
                    continue
                from ..extract import param_value
                try:
                    op_ = bb.ocp._method.opti
                    got = [float(v_) for v_ in np.array(ca.DM(op_.debug.value(bb.ocp.value(bb.psym[p_.name]), op_.initial()))).flatten(order='F')]
                except Exception as e_:
                    V('p-unreadable', p_.name, 'value of parameter %s of the %s OCP cannot be read: %s' % (p_.name, who, str(e_)[:120]))
                    continue
                want = [float(v_) for v_ in np.array(ca.DM(param_value(p_, cfg))).flatten(order='F')]
                if len(got) != len(want) or not all(close(a_, c_) for a_, c_ in zip(got, want)):
                    V('p-stale:%s' % who.split()[0], p_.name, 'parameter %s of the %s OCP has value %r (column-major), last assigned value is %r' % (p_.name, who, got, want))
                else:
                    ch.proved.append('value %s (%s)' % (p_.name, who))
        # named quantities of the loaded OCP (through ITS accessors) equal those of the original
        for d in O2.domains():
            pass
        ta, tb = O2.traj(0), L.traj(0)
        for nm in ('X', 'U'):
            fa = [v for col in getattr(ta, nm) for v in col]
            fb = [v for col in getattr(tb, nm) for v in col]
            if len(fa) != len(fb) or not all(close(a_, c_) for a_, c_ in zip(fa, fb)):
                V('accessor-order', nm, 'sampling %s through the loaded OCP\'s accessors gives different quantities (order of symbols changed?)' % nm)
    twins_ok = twins_bad = 0
    if L is not None and item.get('twin', True) and len(spec.cons) > 1:
        sW = copy.deepcopy(spec)
        sW.cons = sW.cons[:-1]
        try:
            W = Inst(sW, cfg, seed=item.get('seed', 0), like=O2, bind=bind_positional())
            ch2 = Checker(O2, timeout_ms=5000)
            dW, _ = compare_nlps(ch2, L, W, 'loaded', 'one-constraint-less')
            if dW:
                twins_ok += 1
            else:
                twins_bad += 1
        except Exception:
            pass
    r = result(O2, ch, {'violations': viol, 'twins_ok': twins_ok, 'twins_bad': twins_bad, 'shape': '%s|%s|%s' % (cfg.tag(), when, spec.note),
                        'sample': {'cfg': cfg.tag(), 'save': when, 'rows': O2.nlp.ng, 'pairs': npairs, 'features': spec.note}})
    if viol:
        r['status'] = 'violation'
    return r
