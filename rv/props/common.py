"""helpers shared by property modules"""
from ..match import Checker


def multi(inst, fn):
    """run reference builder fn(traj) in every domain -> dict domain -> result"""
    return {d: fn(inst.traj(d)) for d in inst.domains()}


def impl_atoms(inst, kind=None):
    out = {}
    for d in inst.domains():
        a = inst.atoms(d)
        out[d] = [x for x in a if kind is None or x[0] == kind]
    return out


def timevars(inst, ch):
    tr = inst.traj('z')
    vs = set()
    for term in list(tr.tc) + [tr.T, tr.t0]:
        vs |= ch._vars(term)
    return vs


def model_vars(inst, ch):
    """variables that carry the model (states, controls, variables), as opposed to time-grid variables"""
    tr = inst.traj('z')
    tv = timevars(inst, ch)
    vs = set()
    terms = list(tr.X[0])
    if inst.cfg.method != 'SS':
        for xk in tr.X:
            terms += list(xk)
    for uk in tr.U:
        terms += list(uk)
    for d in (tr.V,):
        for v in d.values():
            terms += list(v)
    for v in tr.Vc.values():
        for col in v:
            terms += list(col)
    for n in ('Xr', 'Zr', 'Xi'):
        if inst.cfg.method == 'DC' and hasattr(tr, n):
            for col in getattr(tr, n):
                terms += list(col)
    for t in terms:
        vs |= ch._vars(t)
    return vs - tv


def describe_violation(inst, prop, key, label, detail, point=None):
    """violation record with everything needed to replay: spec, cfg, point"""
    from ..dsl import show
    import dataclasses
    v = {'property': prop, 'key': key, 'label': label, 'detail': detail,
         'cfg': dataclasses.asdict(inst.cfg), 'spec': repr(inst.spec), 'poly': inst.poly}
    if point is not None:
        v['point'] = {'x': list(point[0]), 'p': list(point[1])}
    return v


def result(inst, ch, extra=None):
    r = {
        'stats': ch.stats,
        'obligations': len(ch.proved) + len(ch.violations) + len(ch.inconclusive),
        'discharged': len(ch.proved),
        'nontrivial': sorted(ch.nontrivial),
        'sx_instructions': inst.prog.n_instr,
        'consts_snapped': inst.pool.snapped,
        'inconclusive': ch.inconclusive or None,
    }
    if ch.inconclusive:
        r['status'] = 'inconclusive'
    if extra:
        r.update(extra)
    return r
