"""helpers shared by property modules"""
from ..match import Checker


def rehorizon_built(spec, cfg, old, poly=False):
    """The specification `spec` (numeric t0, T) reached through a HISTORY: the OCP is first declared and transcribed with the horizon `old`
    = (t0, T), then set_t0/set_T assign the final numbers; the next transcription is what the instance examines.
    (Per-transcription state of the method object - node/root times, caches - must not survive.)"""
    import copy
    from ..extract import declare, quiet
    assert spec.t0[0] == 'num' and spec.T[0] == 'num'
    s_old = copy.deepcopy(spec)
    s_old.t0, s_old.T = ('num', old[0]), ('num', old[1])
    with quiet():
        b = declare(s_old, cfg, poly=poly)
        b.ocp.solver('ipopt')
        b.ocp._transcribed
        b.ocp.sample(b.xs[0], grid='control')
        b.ocp.set_t0(float(spec.t0[1]))
        b.ocp.set_T(float(spec.T[1]))
    b.spec = spec
    return b


def multi(inst, fn):
    """run reference builder fn(traj) in every domain -> dict domain -> result"""
    return {d: fn(inst.traj(d)) for d in inst.domains()}


def impl_atoms(inst, kind=None):
    out = {}
    for d in inst.domains():
        a = inst.atoms(d)
        out[d] = [x for x in a if kind is None or x[0] == kind]
    return out


def timevars(inst, ch):
    tr = inst.traj('z')
    vs = set()
    for term in list(tr.tc) + [tr.T, tr.t0]:
        vs |= ch._vars(term)
    return vs


def model_vars(inst, ch):
    """variables that carry the model (states, controls, variables), as opposed to time-grid variables"""
    tr = inst.traj('z')
    tv = timevars(inst, ch)
    vs = set()
    terms = list(tr.X[0])
    if inst.cfg.method != 'SS':
        for xk in tr.X:
            terms += list(xk)
    for uk in tr.U:
        terms += list(uk)
    for d in (tr.V,):
        for v in d.values():
            terms += list(v)
    for v in tr.Vc.values():
        for col in v:
            terms += list(col)
    for n in ('Xr', 'Zr', 'Xi'):
        if inst.cfg.method == 'DC' and hasattr(tr, n):
            for col in getattr(tr, n):
                terms += list(col)
    for t in terms:
        vs |= ch._vars(t)
    return vs - tv


def describe_violation(inst, prop, key, label, detail, point=None):
    """violation record with everything needed to replay: spec, cfg, point"""
    from ..dsl import show
    import dataclasses
    v = {'property': prop, 'key': key, 'label': label, 'detail': detail,
         'cfg': dataclasses.asdict(inst.cfg), 'spec': repr(inst.spec), 'poly': inst.poly}
    if point is not None:
        v['point'] = {'x': list(point[0]), 'p': list(point[1])}
    return v


def result(inst, ch, extra=None):
    r = {
        'stats': ch.stats,
        'obligations': len(ch.proved) + len(ch.violations) + len(ch.inconclusive),
        'discharged': len(ch.proved),
        'nontrivial': sorted(ch.nontrivial),
        'sx_instructions': inst.prog.n_instr,
        'consts_snapped': inst.pool.snapped,
        'inconclusive': ch.inconclusive or None,
    }
    if ch.inconclusive:
        r['status'] = 'inconclusive'
    if extra:
        r.update(extra)
    return r


# ---------------------------------------------------------------------------------------------
# relational comparison of two real transcriptions over one variable set
# ---------------------------------------------------------------------------------------------
def _nonconst(inst, atoms_by_dom):
    """drop variable-free atoms that are true (rockit drops constant-true rows)"""
    z3 = inst.z3
    keep = []
    for j, (kind, term, row) in enumerate(atoms_by_dom['z']):
        st = z3.simplify(term) if not isinstance(term, (int, float)) else term
        if z3.is_rational_value(st):
            v = st.numerator_as_long() / st.denominator_as_long()
            if (kind == 'eq' and v == 0) or (kind == 'le' and v <= 0):
                continue
        keep.append(j)
    return {d: [atoms_by_dom[d][j] for j in keep] for d in atoms_by_dom}


def compare_nlps(ch, A, B, tagA='A', tagB='B'):
    """A, B: Inst over the same variables/points.  returns list of (key, label, detail)"""
    out = []
    a = _nonconst(A, {d: [(k, t, '%s.row%d' % (tagA, r)) for k, t, r in A.atoms(d)] for d in A.domains()})
    b = _nonconst(B, {d: [(k, t, '%s.row%d' % (tagB, r)) for k, t, r in B.atoms(d)] for d in B.domains()})
    pairs, un_a, un_b = ch.match(a, b)
    for j in un_a:
        out.append(('row-only-in-%s' % tagA, a['z'][j][2], 'row of %s has no equal row in %s' % (tagA, tagB)))
    for i in un_b:
        out.append(('row-only-in-%s' % tagB, b['z'][i][2], 'row of %s has no equal row in %s' % (tagB, tagA)))
    fa = {d: A.view(d)[0] for d in A.domains()}
    fb = {d: B.view(d)[0] for d in B.domains()}
    if not ch.prove('objective %s==%s' % (tagA, tagB), fa, fb) and ch.violations:
        v = ch.violations.pop()
        out.append(('objective-differs', 'f', 'objectives differ: %s' % {k: v.get(k) for k in ('how', 'impl', 'ref')}))
    return out, len(pairs)


def bind_positional(skip=(), consts=None, pconsts=None):
    """bind B's variables to `like`'s by position, skipping like-variables with index in `skip`"""
    def bind(nlp, like):
        z3 = like.z3
        keep = [i for i in range(len(like.xv)) if i not in skip]
        out = {}
        for d in like.domains():
            if d == 'z':
                xs = [like.xv[i] for i in keep]
                ps = list(like.pv)
            else:
                xs = [like.pts[d][0][i] for i in keep]
                ps = list(like.pts[d][1])
            out[d] = (xs, ps)
        return out
    return bind
