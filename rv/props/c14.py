"""C14 Scaling arguments never change the meaning of the problem."""
import copy
import random
from fractions import Fraction as Fr

from .. import families as fam
from ..dsl import (Cfg, Sym, Con, X, U, Z, Pg, Vg, t, T, t0, tf, nl1, nl2, at_t0, at_tf, integral, sum_, nxt, C, PINF, NINF)
from ..instance import Inst
from ..match import Checker, close
from ..sx2smt import RZ, emb
from ..ref.semantics import Ref
from ..ref import shooting as rsh, collocation as rco
from .common import multi, impl_atoms, model_vars, describe_violation, result

PROP = 'C14'
LEVEL = 'translation_validation'
META = {
    'rule': 'instance = (model with scale= on states/controls/algebraics/variables/derivatives/algebraic equations/constraints, method, N, M, grid); '
            'the complete row multiset of the scaled NLP, written in the physical (sampled) quantities, must be in bijection with the UNSCALED reference rows: '
            'user constraints exactly divided by their declared scale (bounds included), dynamics rows up to a positive/nonzero constant factor; objective equal; '
            'solver variable = physical/scale; starting point read back in physical units equals the guess; '
            "kind inf-scale: the problem with scale= on grid='inf' constraints against the same problem with scale 1 and the problem without those constraints (same variables): "
            'every row a constant multiple, the factor 1/scale on exactly the certificate rows (bounds included in the normalised row)',
    'functions': ['rockit/direct_method.py:OptiWrapper.variable/subject_to/transcribe_placeholders (scaling of canonical form)',
                  'rockit/stage.py:_parse_scale/state/control/algebraic/variable/set_der/add_alg/subject_to(scale=)',
                  'rockit/multiple_shooting.py, single_shooting.py, direct_collocation.py: scale= at variable and constraint creation',
                  'rockit/sampling_method.py:add_variables_V_control/set_initial/add_inf_constraints'],
    'bounds': 'scales are distinct concrete rationals (2, 1/4, 3, 10, 1/5, 7; element-wise for vector states); quick N<=3, M<=2; all methods; all real values',
    'outside': 'symbolic scale values; IEEE rounding; effect of scaling on solver iterations',
    'assumptions': ['reals for floats; constants identified up to 1e-10', 'markers stand for arbitrary total functions',
                    'equalities/inequalities compared up to a constant factor for dynamics rows: the factor found is reported in evidence'],
}

SC = [Fr(2), Fr(1, 4), Fr(3), Fr(10), Fr(1, 5), Fr(7)]


def scaled_models():
    out = []
    s = copy.deepcopy(fam.ode_core()[0])
    s.xscale = [SC[0], SC[1]]
    s.uscale = [SC[2]]
    s.derscale = [SC[3], SC[4]]
    s.cons = [Con('<=', X(0), 3, scale=SC[5]), Con('>=', X(1) * U(0), Pg('a'), scale=SC[0]), Con('==', at_t0(X(0)), 1, scale=SC[2]),
              Con('<=<=', -1, 1, mid=U(0), scale=SC[1]), Con('<=', at_tf(X(1)), Pg('a') * 2, scale=SC[3]),
              # vector-valued, scaled, infinite bounds on some rows only
              Con('<=<=', [NINF, -1, -3], [2, 1, PINF], mid=[X(0), U(0) * 2, X(1) + t], scale=SC[4]),
              Con('<=<=', [-2, NINF], [PINF, 4], mid=[X(1), X(0) - U(0)], scale=SC[2], grid='integrator')]
    s.objective = [integral(X(0) * X(0) + U(0) * U(0)), at_tf(X(1))]
    s.initial = [(X(0), Fr(3, 2)), (U(0), Fr(-1, 2)), (X(1), t)]
    out.append(s)
    s = copy.deepcopy(fam.ode_core()[1])
    s.xscale = [SC[1], SC[5]]
    s.uscale = [SC[4]]
    s.vars = [Sym('w', scale=SC[2]), Sym('vc', 'control', scale=SC[3]), Sym('vp', 'control+', scale=SC[0])]
    s.cons = [Con('<=', Vg('vc') + X(0), 4, scale=SC[4]), Con('>=', Vg('vp'), -2), Con('==', Vg('w'), at_tf(X(0)), scale=SC[1]),
              Con('<=', nxt(X(1)) - X(1), 2, scale=SC[2])]
    s.objective = [sum_(Vg('vc') * Vg('vc')), Vg('w') * Vg('w') + at_tf(X(0))]
    s.initial = [(Vg('w'), 5), (Vg('vc'), Fr(1, 2)), (Vg('vp'), 3), (X(0), 2)]
    out.append(s)
    s = copy.deepcopy(fam.ode_core()[2])     # vector state with element-wise scale
    s.xscale = [SC[0], SC[3], SC[1]]
    s.uscale = [SC[5]]
    s.cons = [Con('<=', X(0) + X(1), 3, scale=SC[2]), Con('>=', X(2), -1, scale=SC[4])]
    s.objective = [at_tf(X(0) * X(2))]
    s.initial = [(X(2), 4)]
    out.append(s)
    return out


def scaled_dae():
    s = copy.deepcopy(fam.dae_core()[0])
    s.xscale = [SC[0], SC[1]]
    s.uscale = [SC[2]]
    s.zscale = [SC[3]]
    s.derscale = [SC[4], SC[5]]
    s.algscale = [SC[2]]
    s.cons = [Con('<=', Z(0), 9, grid='integrator_roots', scale=SC[1]), Con('>=', X(0), -5, scale=SC[5])]
    s.objective = [integral(Z(0) * X(0))]
    s.initial = [(X(0), 2), (Z(0), 3)]
    return s


def instances(tier, seed):
    rng = random.Random(seed + 14)
    items = []

    def add(spec, cfg, **kw):
        items.append(dict(id='%s#%d' % (PROP, len(items)), spec=spec, cfg=cfg, **kw))
    H = fam.HORIZONS
    Hsym = [h for h in H if fam.horizon_symbolic(h)]
    grids = [fam.G_UNI, fam.G_GEO_LOC, fam.G_UNI_LT, fam.G_FREE]
    n = 0
    reps = 1 if tier == 'quick' else 4
    for rep in range(reps):
        for method, intg in (('MS', 'rk'), ('SS', 'rk'), ('DC', None), ('MS', 'expl_euler')):
            for s in scaled_models() + ([scaled_dae()] if method == 'DC' else []):
                N = [2, 3][n % 2] if tier == 'quick' else rng.choice([1, 2, 3, 4])
                M = [1, 2][(n // 2) % 2] if tier == 'quick' else rng.choice([1, 2, 3])
                g = grids[n % len(grids)]
                h = H[n % len(H)]
                degree, scheme = [(2, 'radau'), (3, 'radau'), (1, 'legendre'), (4, 'radau')][n % 4]
                if method == 'DC' and not fam.rational_tables(degree, scheme) and not fam.horizon_symbolic(h):
                    h = Hsym[n % len(Hsym)]
                add(fam.with_horizon(s, h), Cfg(method, N=N, M=M, intg=intg or 'rk', grid=g, degree=degree, scheme=scheme))
                n += 1
    # the right-hand sides (with their derivative scales) are given in another order than the states were declared
    for mi, (method, intg) in enumerate((('DC', None), ('MS', 'rk'))):
        for mdl in (scaled_models()[0], scaled_models()[2]):
            s = copy.deepcopy(mdl)
            if s.derscale is None:
                s.derscale = [SC[(3 + j) % len(SC)] for j in range(s.nx)]
            s.der_order = 'reversed'
            add(fam.with_horizon(s, H[(2 * mi + 1) % len(H)] if method != 'DC' else Hsym[mi]), Cfg(method, N=2, M=1, intg=intg or 'rk', grid=fam.G_UNI, degree=2, scheme='radau'))
    # a constraint that is trivially true once the (numeric) horizon is filled in is declared FIRST: the scales of the later constraints stay their own
    from ..dsl import T as T_
    for mi, (method, intg) in enumerate((('MS', 'rk'), ('DC', None), ('SS', 'rk'))):
        s = scaled_models()[0]
        s.cons = [Con('>=', T_, Fr(1, 4))] + list(s.cons)
        s.note = (s.note or '') + ' + trivially true first constraint'
        add(fam.with_horizon(s, (('num', Fr(1, 2)), ('num', Fr(2)))), Cfg(method, N=2, M=[1, 2][mi % 2], intg=intg or 'rk', grid=fam.G_UNI, degree=2, scheme='radau'))
    # scale= on a grid='inf' constraint: its certificate rows (body and bounds) are those of the unscaled problem divided by the scale
    for mi, (method, intg, deg) in enumerate((('MS', 'rk', 4), ('DC', None, 4), ('SS', 'rk', 4), ('MS', 'rk', 4))):
        s = copy.deepcopy(fam.ode_core()[0])
        s.ode = [X(1), U(0)]
        s.cons = [Con('<=', X(0), 1, grid='inf', scale=SC[(mi + 2) % len(SC)]), Con('==', at_t0(X(0)), 0), Con('<=<=', -50, 50, mid=U(0)),
                  Con('<=<=', -2, 3, mid=X(0) * 2 + X(1), grid='inf', scale=SC[(mi + 3) % len(SC)])]
        s.objective = [at_tf(X(1))]
        s.initial = []
        s.note = 'scaled inf constraints'
        add(fam.with_horizon(s, H[mi % 2]), Cfg(method, N=2, M=[1, 2][mi % 2], intg=intg or 'rk', grid=fam.G_UNI, degree=deg, scheme='radau'), kind='inf-scale')
    # seeded random scaled problems: random model, random scales on states/controls/algebraics/derivatives/variables and on every constraint
    from .. import randspec
    rr = random.Random(seed * 7919 + 1414)
    scs = [Fr(2), Fr(1, 4), Fr(3), Fr(10), Fr(1, 5), Fr(7), Fr(1), Fr(1, 2), Fr(5)]
    for ri in range(4 if tier == 'quick' else 100):
        method, intg = rr.choice([('MS', 'rk'), ('SS', 'rk'), ('DC', None), ('MS', 'expl_euler'), ('DC', None)])
        s = fam.random_dae(rr) if (method == 'DC' and rr.random() < 0.4) else fam.random_ode(rr)
        N = rr.choice([1, 2, 3])
        M = rr.choice([1, 2, 3]) if method != 'SS' else rr.choice([1, 2])
        h = rr.choice(H[1:])
        s = fam.with_horizon(s, h)
        s.xscale = [rr.choice(scs) for _ in range(s.nx)]
        if s.nu:
            s.uscale = [rr.choice(scs) for _ in range(s.nu)]
        if s.nz:
            s.zscale = [rr.choice(scs) for _ in range(s.nz)]
            if rr.random() < 0.5:
                s.algscale = [rr.choice(scs) for _ in range(s.nz)]
        if rr.random() < 0.5:
            s.derscale = [rr.choice(scs) for _ in range(s.nx)]
        for v in s.vars:
            v.scale = rr.choice(scs)
        s.cons = randspec.random_constraints(rr, s, method, M)
        for c in s.cons:
            c.scale = rr.choice(scs)
        s.objective = randspec.random_objective(rr, s, method)
        s.initial = [(X(0), Fr(3, 2))] + ([(U(0), Fr(-1, 2))] if s.nu else [])
        degree, scheme = rr.choice([(2, 'radau'), (3, 'radau'), (1, 'legendre'), (1, 'radau')])
        if method == 'DC' and not fam.rational_tables(degree, scheme) and not fam.horizon_symbolic(h):
            degree, scheme = 2, 'radau'
        g = rr.choice(grids)
        add(s, Cfg(method, N=N, M=M, intg=intg or 'rk', grid=g, degree=degree, scheme=scheme), soft=True, family='random')
    return items


def run_inf_scale(item):
    """A = the problem with scaled grid='inf' constraints, B = the same with scale 1, C = without those constraints (same variables, bound by position).
    Every row of A must equal a row of B times a constant; that constant is 1 for the rows C has too and exactly 1/scale for the certificate rows of
    the scaled constraint (bounds are part of the normalised row)."""
    from .common import bind_positional
    spec, cfg = item['spec'], item['cfg']
    A = Inst(spec, cfg, seed=item.get('seed', 0))
    sB = copy.deepcopy(spec)
    for c in sB.cons:
        c.scale = 1
    B = Inst(sB, cfg, seed=item.get('seed', 0), like=A, bind=bind_positional())
    ch = Checker(A)
    viol = []

    def V(key, label, detail, pt=None):
        viol.append(describe_violation(A, PROP, '%s|%s' % (key, cfg.method), label, detail, pt))
    a = {d: [(k, t_, 'scaled.row%d.%d' % (r, n_)) for n_, (k, t_, r) in enumerate(A.atoms(d))] for d in A.domains()}
    b = {d: [(k, t_, 'unscaled.row%d.%d' % (r, n_)) for n_, (k, t_, r) in enumerate(B.atoms(d))] for d in B.domains()}
    if len(a['z']) != len(b['z']):
        V('inf-scale:row-count', 'rows', 'scaled problem has %d rows, unscaled %d' % (len(a['z']), len(b['z'])), A.pts[0])
    pairs, un_b, un_a = ch.match(b, a, modconst=lambda lab: True)
    for j in un_b:
        V('inf-scale:row-mismatch', b['z'][j][2], 'no row of the scaled problem is a constant multiple of this row of the unscaled one', A.pts[0])
    # expected factor per row: rows of the unscaled problem in declaration order of the constraints are not labelled, so count: for every declared
    # inf constraint with scale s, its number of certificate rows (found from the problem without it) must carry the factor 1/s, all others 1
    want = {}
    infc = [ci for ci, c in enumerate(spec.cons) if c.grid == 'inf' and c.scale != 1]
    for ci in infc:
        sC = copy.deepcopy(sB)
        del sC.cons[ci]
        Cn = Inst(sC, cfg, seed=item.get('seed', 0), like=A, bind=bind_positional())
        want[Fr(1) / Fr(spec.cons[ci].scale)] = want.get(Fr(1) / Fr(spec.cons[ci].scale), 0) + len(B.atoms('z')) - len(Cn.atoms('z'))
    got = {}
    for lab, fac in ch.factors.items():
        got[Fr(fac)] = got.get(Fr(fac), 0) + 1
    got.pop(Fr(1), None)
    if got != want:
        V('inf-scale:factor', 'rows', "rows of the scaled problem / rows of the unscaled one: factors %s, expected %s (every certificate row of a grid='inf' constraint, body and bounds, divided by its scale)" % (
            {str(k): v for k, v in sorted(got.items())}, {str(k): v for k, v in sorted(want.items())}), A.pts[0])
    else:
        ch.proved.append('inf rows divided by their scale: %s' % {str(k): v for k, v in sorted(want.items())})
        ch.nontrivial.add('inf-scale')
    r = result(A, ch, {'violations': viol, 'shape': 'inf-scale|%s' % cfg.tag(),
                       'sample': {'cfg': cfg.tag(), 'kind': 'inf-scale', 'constraint_scales': [str(c.scale) for c in spec.cons], 'factors': {str(k): v for k, v in got.items()},
                                  'nlp_rows': A.nlp.ng, 'matched': len(pairs)}})
    if viol:
        r['status'] = 'violation'
    return r


def run(item):
    if item.get('kind') == 'inf-scale':
        return run_inf_scale(item)
    spec, cfg = item['spec'], item['cfg']
    inst = Inst(spec, cfg, seed=item.get('seed', 0), poly=item.get('poly', False))
    ch = Checker(inst)
    z3 = inst.z3
    viol = []
    mut = item.get('mut')
    doms = inst.domains()

    def V(key, label, detail, pt=None):
        viol.append(describe_violation(inst, PROP, '%s|%s' % (key, cfg.method), label, detail, pt))

    def ref_atoms(tr):
        r = Ref(tr)
        if mut == 'ignore_con_scale':
            tr.spec = copy.deepcopy(tr.spec)
            for c in tr.spec.cons:
                c.scale = 1
            r = Ref(tr)
        at = []
        if cfg.method == 'MS':
            at += rsh.gap_atoms(tr)
        elif cfg.method == 'DC':
            at += rco.dyn_atoms(tr)
        return at + r.constraint_atoms() + r.horizon_atoms()
    refa = multi(inst, ref_atoms)
    keep = [j for j, (kind, term, label) in enumerate(refa['z'])
            if not (isinstance(term, RZ) and term.k is not None and ((kind == 'le' and term.k <= 0) or (kind == 'eq' and term.k == 0)))]
    refa = {d: [refa[d][j] for j in keep] for d in refa}
    impa = impl_atoms(inst)
    pairs, un_ref, un_impl = ch.match(refa, impa, modconst=lambda lab: '@' not in lab)
    from .c04 import tautology
    for j in un_ref:
        lab = refa['z'][j][2]
        if refa['z'][j][0] == 'le' and tautology(ch, refa['z'][j][1]):
            continue        # e.g. x*x >= 0: CasADi folds the relation to `true`; no restriction of the feasible set
        V('row-mismatch:%s' % ('constraint' if '@' in lab else lab.split('[')[0]), lab,
          'no NLP row equals the physical residual divided by its declared scale (constraints) / a constant multiple of it (dynamics)', inst.pts[0])
    mv = model_vars(inst, ch)
    for i in un_impl:
        vs = ch._vars(impa['z'][i][1])
        if vs & mv:
            V('extra-row', 'row %d' % impa['z'][i][2], 'NLP row matches no reference row', inst.pts[0])
    # the constant factor found for a dynamics row is 1/(its OWN scale) up to one constant per row family: factor * own scale is the same for every
    # state / algebraic equation (defect rows: derivative scale of the state; continuity and gap rows: state scale; algebraic rows: their own scale times the scale of the algebraic variable of the same index, which is how rockit normalises them)
    import re as _re
    fam_scale = {'defect': (spec.derscale, 's'), 'cont': (spec.xscale, 's'), 'gap': (spec.xscale, 'i'), 'alg': (spec.algscale, 'a')}
    prods = {}
    for lab, fac in getattr(ch, 'factors', {}).items():
        fam_ = lab.split('[')[0]
        if fam_ not in fam_scale:
            continue
        scl, key_ = fam_scale[fam_]
        idx_ = int(_re.search(r'%s=(\d+)' % key_, lab).group(1))
        own = Fr(scl[idx_]) if scl is not None else Fr(1)
        if fam_ == 'alg' and spec.zscale is not None:
            own = own * Fr(spec.zscale[idx_])      # rockit's convention: algebraic equation a is divided by its own scale AND by the scale of algebraic variable a
        prods.setdefault(fam_, {}).setdefault(abs(Fr(fac) * own), []).append(lab)
    for fam_, byval in prods.items():
        if len(byval) > 1:
            minority = min(byval.values(), key=len)
            V('dynamics-scale:%s' % fam_, minority[0], '%s rows are not each divided by their OWN scale: factor x own scale takes the values %s (rows %s differ from the rest)' % (
                fam_, sorted(str(v_) for v_ in byval), minority[:4]), inst.pts[0])
        else:
            ch.proved.append('%s rows: factor x own scale is one constant' % fam_)
    # objective in physical quantities
    fr = multi(inst, lambda tr: Ref(tr).objective())
    fi = {d: inst.view(d)[0] for d in doms}
    if not ch.prove('opti.f == physical objective', fi, fr) and ch.violations:
        v = ch.violations.pop()
        V('objective', 'f', 'scaled objective differs from the declared one: %s' % {k: v.get(k) for k in ('how', 'impl', 'ref')},
          inst.pts[v['point']] if v.get('point') is not None else v.get('model'))
    # solver variable = physical / scale  (MS/DC node states, controls, variables)
    trz = inst.traj('z')
    checks = []
    if cfg.method != 'SS' and spec.xscale:
        for k in range(cfg.N + 1):
            for i in range(spec.nx):
                checks.append(('X[%d][%d]' % (k, i), trz.X[k][i], spec.xscale[i]))
    elif spec.xscale:
        for i in range(spec.nx):
            checks.append(('X[0][%d]' % i, trz.X[0][i], spec.xscale[i]))
    if cfg.method == 'DC' and spec.xscale:
        for n_, col in enumerate(trz.Xr):
            for i in range(spec.nx):
                checks.append(('Xr[%d][%d]' % (n_, i), col[i], spec.xscale[i]))
        for n_, col in enumerate(trz.Xi):
            for i in range(spec.nx):
                checks.append(('Xi[%d][%d]' % (n_, i), col[i], spec.xscale[i]))
    if cfg.method == 'DC' and spec.zscale and spec.nz:
        for n_, col in enumerate(trz.Zr):
            for i in range(spec.nz):
                checks.append(('Zr[%d][%d]' % (n_, i), col[i], spec.zscale[i]))
    if spec.uscale:
        for k in range(cfg.N):
            for i in range(spec.nu):
                checks.append(('U[%d][%d]' % (k, i), trz.U[k][i], spec.uscale[i]))
    for s in spec.vars:
        if s.scale != 1:
            if s.grid == '':
                checks.append(('V[%s]' % s.name, trz.V[s.name][0], s.scale))
            else:
                for k, col in enumerate(trz.Vc[s.name]):
                    checks.append(('Vc[%s][%d]' % (s.name, k), col[0], s.scale))
    for lab, term, sc in checks:
        q = z3.simplify(emb(term) / z3.RealVal(str(Fr(sc))))
        ok = z3.is_const(q) and q.decl().kind() == z3.Z3_OP_UNINTERPRETED
        ch.stats['queries'] += 1
        if ok:
            ch.proved.append('var:' + lab)
            ch.nontrivial.add('var:' + lab)
        else:
            V('variable-scale', lab, 'physical quantity / declared scale is not a plain solver variable: %s' % q)
    # starting point read back in physical units
    x0 = list(inst.nlp.x0())
    pv = list(inst.nlp.pval())
    o = inst.prog.run(inst.fdom, inst.nlp.split(x0, inst.nlp.xsyms) + inst.nlp.split(pv, inst.nlp.psyms))
    nn = len(inst.named.items)
    tr0 = inst.named.traj(o[4:4 + nn], inst.fdom)
    for tgt, val in spec.initial:
        if not isinstance(val, (int, Fr)):
            continue
        got = []
        if tgt.op == 'x':
            got = [tr0.X[k][tgt.a[0]] for k in (range(cfg.N + 1) if cfg.method != 'SS' else [0])]
        elif tgt.op == 'u':
            got = [tr0.U[k][tgt.a[0]] for k in range(cfg.N)]
        elif tgt.op == 'v':
            g = [s.grid for s in spec.vars if s.name == tgt.a[0]][0]
            got = [tr0.V[tgt.a[0]][0]] if g == '' else [c[0] for c in tr0.Vc[tgt.a[0]]]
        elif tgt.op == 'z' and cfg.method == 'DC':
            got = [c[tgt.a[0]] for c in tr0.Zr]
        for gi, gv in enumerate(got):
            if not close(gv, float(val), 1e-9):
                V('initial-guess-units', '%r[%d]' % (tgt, gi), 'starting value read back in physical units is %r, guess was %r' % (gv, float(val)))
                break
        else:
            if got:
                ch.proved.append('x0:%r' % tgt)
    twins_ok = twins_bad = 0
    scaled_ci = [ci for ci, c in enumerate(spec.cons) if c.scale != 1]
    if not mut and scaled_ci and Ref(inst.traj(0)).constraint_atoms(which=scaled_ci):      # (an offset may leave a constraint without any instance)
        ch2 = Checker(inst, timeout_ms=5000)

        def ref_twin(tr):
            tr.spec = copy.deepcopy(tr.spec)
            for c in tr.spec.cons:
                c.scale = 1
            return Ref(tr).constraint_atoms()
        rt = multi(inst, ref_twin)
        _, un2, _ = ch2.match(rt, impa, far=False)
        if un2:
            twins_ok += 1
        elif not ch2.inconclusive:      # an undecided comparison tells nothing either way
            twins_bad += 1
    r = result(inst, ch, {'violations': viol, 'twins_ok': twins_ok, 'twins_bad': twins_bad,
                          'shape': '%s|%s|%s' % (cfg.tag(), spec.t0[0] + '/' + spec.T[0], spec.note),
                          'sample': {'cfg': cfg.tag(), 'xscale': repr(spec.xscale), 'uscale': repr(spec.uscale), 'derscale': repr(spec.derscale),
                                     'constraint_scales': [str(c.scale) for c in spec.cons], 'factors_found_for_dynamics_rows': dict(list(getattr(ch, 'factors', {}).items())[:6]),
                                     'nlp_rows': inst.nlp.ng, 'matched': len(pairs)}})
    if viol:
        r['status'] = 'violation'
    return r
