"""C05 The NLP objective is the sum of the declared Mayer, sum and integral terms."""
import copy
import random
from fractions import Fraction as Fr

from .. import families as fam
from ..dsl import (Cfg, Spec, Sym, X, U, Z, Pg, Vg, t, T, t0, tf, nl1, nl2, at_t0, at_tf, integral, integral_control, sum_, wsum, C)
from ..instance import Inst
from ..match import Checker
from ..ref.semantics import Ref
from .common import multi, describe_violation, result

PROP = 'C05'
LEVEL = 'translation_validation'
META = {
    'rule': 'instance = (model, objective term list, method, N, M, degree/scheme, grid, horizon kinds); obligations: opti.f == sum of reference '
            'terms and value(ocp.objective) == opti.f; non-trivial = depends on decision variables; distinct by (shape, label)',
    'functions': ['rockit/stage.py:Stage.add_objective/integral/sum/at_t0/at_tf/_transcribe_placeholders/value',
                  'rockit/direct_method.py:fill_placeholders_integral/OptiWrapper.add_objective/transcribe_placeholders',
                  'rockit/sampling_method.py:fill_placeholders_*/intg_rk/intg_expl_euler (quadrature outputs)/add_objective',
                  'rockit/direct_collocation.py:add_constraints (q += quad*dt*B[j])', 'rockit/multiple_shooting.py, single_shooting.py: Q accumulation'],
    'bounds': '1-4 objective terms mixing at_t0/at_tf/sum/sum(include_last)/integral(grid=control)/integral and plain T,t0,variables; '
              'quick N<=3, M<=2; thorough N<=4, M<=3; all methods; all real values; integrands with uninterpreted markers',
    'outside': 'multi-stage sums (C12); numeric horizon with irrational collocation tables; IEEE rounding; the solver\'s reported optimal cost',
    'assumptions': ['reals for floats; constants identified up to 1e-10', 'markers stand for arbitrary total functions',
                    'states/controls/times are the named read-back quantities (anchored by C01/C02/C06)'],
}


def objectives(spec, rng=None):
    """objective term lists adapted to the symbols the spec has"""
    x0 = X(0)
    x1 = X(min(1, spec.nx - 1))
    u = U(0) if spec.nu else C(1)
    pcs = [Pg(p.name) for p in spec.params if p.grid.startswith('control') and p.n == 1]
    pg = [Pg(p.name) for p in spec.params if p.grid == '' and p.n == 1 and not p.name.startswith('pt') and p.name != 'pT']
    vg = [Vg(v.name) for v in spec.vars if v.grid == '']
    vcs = [Vg(v.name) for v in spec.vars if v.grid.startswith('control')]
    pc = pcs[0] if pcs else C(2)
    a = pg[0] if pg else C(3)
    w = vg[0] if vg else C(1)
    vc = vcs[0] if vcs else C(1)
    lists = [
        [at_tf(x0 * x0) + at_t0(nl1(x1)) * T, integral(x0 * u + t * nl1(x1))],
        [sum_(u * u + vc), sum_(x0 * t, include_last=True), w * w + t0],
        [integral_control(x0 * pc + t), a * at_tf(x1) - tf],
        [integral(nl2(x0, t) * pc), integral(u * u) * T, at_tf(t * x0)],
        [integral(x1 * x1 + w) + sum_(nl1(u) * pc)],
        # ONE ocp.sum / at_tf call on a row, matrix or column valued expression (then weighted): every entry is its own sum over the nodes
        [wsum('sum', 1, 2, [1, 2], [u * u + x0, x0 * t]), wsum('sum+', 2, 2, [1, -1, 2, 3], [x0 * x1, u + vc, t * x1, nl1(x0)]),
         wsum('at_tf', 2, 1, [1, 2], [x0, x1 * x1]) + wsum('sum', 3, 1, [1, 1, 2], [x0, u * pc, x1 * x1])],
    ]
    return lists


def instances(tier, seed):
    rng = random.Random(seed + 5)
    items = []

    def add(spec, cfg, **kw):
        items.append(dict(id='%s#%d' % (PROP, len(items)), spec=spec, cfg=cfg, **kw))
    H = fam.HORIZONS
    Hsym = [h for h in H if fam.horizon_symbolic(h)]
    grids = [fam.G_UNI, fam.G_GEO_LOC, fam.G_UNI_LT, fam.G_FREE, 'fun', fam.G_UNI_LT0]
    models = fam.ode_core()
    n = 0
    meths = [('MS', 'rk'), ('SS', 'rk'), ('DC', None), ('MS', 'expl_euler'), ('SS', 'expl_euler'), ('DC', None)]
    reps = 1 if tier == 'quick' else 6
    for rep in range(reps):
        for mi, (method, intg) in enumerate(meths):
            for oi in range(6):
                s = copy.deepcopy(models[(n + rep) % 3])
                s.objective = objectives(s)[oi]
                N = [2, 3, 1][n % 3] if tier == 'quick' else rng.choice([1, 2, 3, 4])
                M = [2, 1][n % 2] if tier == 'quick' else rng.choice([1, 2, 3])
                g = grids[n % len(grids)]
                if g == 'fun':
                    g = fam.G_FUN(N)
                h = H[n % len(H)]
                degree, scheme = [(2, 'radau'), (1, 'radau'), (3, 'legendre'), (1, 'legendre'), (4, 'radau'), (5, 'radau')][n % 6]
                if method == 'DC' and not fam.rational_tables(degree, scheme) and not fam.horizon_symbolic(h):
                    h = Hsym[n % len(Hsym)]
                cfg = Cfg(method, N=N, M=M, intg=intg or 'rk', grid=g, degree=degree, scheme=scheme)
                add(fam.with_horizon(s, h), cfg)
                n += 1
    # integral(grid='control') on grids whose nodes are decision variables, with a NUMERIC horizon (interval lengths come from the grid variables, not from T)
    for mi, (method, intg, g) in enumerate((('MS', 'rk', fam.G_FREE), ('DC', None, fam.G_FREE), ('SS', 'rk', fam.G_UNI_LT), ('MS', 'expl_euler', fam.G_UNI_LT0))):
        s = copy.deepcopy(models[mi % 3])
        s.objective = objectives(s)[2]
        add(fam.with_horizon(s, (('num', Fr(1, 2)), ('num', Fr(2)))), Cfg(method, N=[2, 3][mi % 2], M=1, intg=intg or 'rk', grid=g, degree=2, scheme='radau'))
    # lowest collocation degrees with a true integral term (quadrature weights of one-point rules)
    for mi, (degree, scheme) in enumerate(((1, 'radau'), (1, 'legendre'), (2, 'legendre'))):
        s = copy.deepcopy(models[mi % 3])
        s.objective = objectives(s)[[0, 3, 4][mi]]
        add(fam.with_horizon(s, Hsym[mi % len(Hsym)]), Cfg('DC', N=2, M=[1, 2][mi % 2], grid=[fam.G_UNI, fam.G_GEO_LOC][mi % 2], degree=degree, scheme=scheme))
    # seeded random objective term lists over random models (configuration side widened; values stay symbolic)
    from .. import randspec
    nrand = 6 if tier == 'quick' else 160
    rr = random.Random(seed * 7919 + 505)
    for ri in range(nrand):
        method, intg = rr.choice([('MS', 'rk'), ('SS', 'rk'), ('DC', None), ('DC', None), ('MS', 'expl_euler'), ('SS', 'expl_euler')])
        if method == 'DC' and rr.random() < 0.4:
            s = fam.random_dae(rr)
        elif method != 'DC' and rr.random() < 0.2:
            s = fam.random_diffeq(rr)
            intg = 'rk'
        else:
            s = fam.random_ode(rr)
        N = rr.choice([1, 2, 2, 3, 4])
        M = rr.choice([1, 1, 2, 3]) if method != 'SS' else rr.choice([1, 2])
        if method == 'SS':
            N = min(N, 3)
        s.objective = randspec.random_objective(rr, s, method)
        g = rr.choice(grids)
        if g == 'fun':
            g = fam.G_FUN(N)
        h = rr.choice(H)
        degree, scheme = rr.choice([(2, 'radau'), (1, 'radau'), (3, 'legendre'), (1, 'legendre'), (4, 'radau'), (2, 'legendre'), (3, 'radau')])
        if method == 'DC' and not fam.rational_tables(degree, scheme) and not fam.horizon_symbolic(h):
            h = rr.choice(Hsym)
        add(fam.with_horizon(s, h), Cfg(method, N=N, M=M, intg=intg or 'rk', grid=g, degree=degree, scheme=scheme), soft=True, family='random')
    # several controls / several integral terms of the same shape (symbols created by ocp.control() all carry the same name)
    for mi, (method, intg) in enumerate((('MS', 'rk'), ('SS', 'expl_euler'), ('DC', None))):
        s = Spec(nx=2, nu=2, ode=[nl1(X(1)) * U(0) + t * X(0), X(0) - U(1) * X(1)], note='two controls, separate integral terms')
        s.objective = [integral(X(0) * X(0)), integral(U(0) * U(0)), integral(U(1) * U(1)), integral(X(1) * X(1)) + sum_(U(0) * U(0)) + sum_(U(1) * U(1))]
        add(fam.with_horizon(s, H[2 * mi % len(H)]), Cfg(method, N=2, M=[1, 2][mi % 2], intg=intg or 'rk', grid=fam.G_UNI, degree=2, scheme='radau'))
    # sums whose summand does NOT vary along the grid (global variable / parameter / horizon only): still one term per node, N or N+1 of them
    from ..dsl import Pg as _Pg, Vg as _Vg
    for mi, (method, intg, N_) in enumerate((('MS', 'rk', 3), ('DC', None, 2), ('SS', 'rk', 1), ('MS', 'expl_euler', 1))):
        s = copy.deepcopy(models[0])
        s.vars = list(s.vars) + [Sym('ws')]
        s.objective = [sum_(_Vg('ws') * _Vg('ws') * 2 + T, include_last=True), sum_(_Vg('ws') + t0 * 3), at_tf(X(0) * X(0)), wsum('sum+', 1, 2, [1, 2], [_Vg('ws'), T * _Vg('ws')])]
        add(fam.with_horizon(s, H[(2 + mi) % len(H)]), Cfg(method, N=N_, M=1, intg=intg or 'rk', grid=fam.G_UNI, degree=2, scheme='radau'))
    # DAE with integral under collocation
    for di, s in enumerate(fam.dae_core()):
        s = copy.deepcopy(s)
        s.objective = [integral(Z(0) * X(0) + t), at_tf(X(0)) * at_t0(X(0))] + ([integral(Z(0) * Z(0)), integral(Z(1) * Z(1))] if s.nz > 1 else [])
        add(fam.with_horizon(s, Hsym[di]), Cfg('DC', N=2, M=2, degree=3, scheme='radau', grid=fam.G_GEO_LOC))
    # a stage WITHOUT states: ocp.integral is still the quadrature of the stage's own integration rule (not a left sum over the control grid)
    for method, kw in (('MS', dict(intg='rk', M=2)), ('MS', dict(intg='expl_euler', M=3)), ('DC', dict(degree=2, scheme='radau', M=2)), ('SS', dict(intg='rk', M=1))):
        add(None, None, kind='stateless', method=method, mkw=kw)
    return items


def run_stateless(item):
    """imperative instance (no states: the DSL always has one): f == sum over integrator steps of the rule's quadrature of e(t, u_k, p), proven by z3
    for all control values, parameter values and the free end time"""
    import time
    import z3
    import casadi as ca
    from ..extract import Ocp, MultipleShooting, SingleShooting, DirectCollocation, FreeTime, quiet
    from ..sx2smt import SXProgram, ConstPool, Z3Domain, emb
    from ..ref import collocation as rco
    method, kw = item['method'], dict(item['mkw'])
    N, M = 2, kw.pop('M')
    stats = {'unsat': 0, 'sat': 0, 'unknown': 0, 'queries': 0, 'solver_s': 0.0}
    proved, viol, incon = [], [], []
    with quiet():
        ocp = Ocp(t0=0.5, T=FreeTime(2.0))
        u = ocp.control()
        p = ocp.parameter()
        ocp.set_value(p, 1.5)
        e = lambda t_, u_: (u_ - t_ * t_) * (u_ - t_ * t_) + p * t_ * u_
        ocp.add_objective(ocp.integral(e(ocp.t, u)) + ocp.T)
        ocp.subject_to(-3 <= (u <= 3))
        ocp.method({'MS': MultipleShooting, 'SS': SingleShooting, 'DC': DirectCollocation}[method](N=N, M=M, **kw))
        ocp.solver('ipopt')
        us = ocp.sample(u, grid='control-')[1]
        ti = ocp.sample(ocp.t, grid='integrator')[1]
        Tv = ocp.value(ocp.T)
        opti = ocp._method.opti
        ref = Tv
        pv = ocp.value(p)
        for k in range(N):
            for i in range(M):
                a, b_ = ti[k * M + i], ti[k * M + i + 1]
                h = b_ - a
                q = lambda t_: (us[k] - t_ * t_) * (us[k] - t_ * t_) + pv * t_ * us[k]
                if method == 'DC':
                    tb = rco.Tables(kw['degree'], kw['scheme'])
                    ref = ref + h * sum(float(tb.b[j]) * q(a + float(tb.tau[j]) * h) for j in range(kw['degree']))
                elif kw['intg'] == 'rk':
                    ref = ref + h / 6 * (q(a) + 4 * q(a + h / 2) + q(b_))
                else:
                    ref = ref + h * q(a)
        syms = list(opti.advanced.symvar())
        prog = SXProgram(syms, [opti.f - ref])
        prog.selfcheck(random.Random(4))
    zdom = Z3Domain(ConstPool())
    zin = [[z3.Real('%s_%d' % (s_.name(), j)) for j in range(s_.numel())] for s_ in syms]
    d = prog.run(zdom, zin)[0][0]
    sol = z3.Solver()
    sol.set('timeout', 30000)
    t_ = time.time()
    sol.add(z3.simplify(emb(d)) != 0)
    r = str(sol.check())
    stats[r] += 1
    stats['queries'] += 1
    stats['solver_s'] += time.time() - t_
    lab = 'f == T + sum of per-step quadratures (%s)' % method
    if r == 'unsat':
        proved.append(lab)
    elif r == 'sat':
        viol.append({'property': PROP, 'key': 'objective|stateless|%s' % method, 'label': lab, 'cfg': '%s N=%d M=%d %s' % (method, N, M, kw), 'spec': 'no states, one control, integral((u-t^2)^2 + p t u) + T',
                     'detail': 'on a stage without states the NLP objective is not the quadrature of the integrand by the stage\'s own integration rule over the integrator steps'})
    else:
        incon.append({'label': lab, 'why': 'solver ' + r})
    res = {'stats': stats, 'obligations': 1, 'discharged': len(proved), 'nontrivial': proved, 'violations': viol, 'inconclusive': incon or None, 'twins_ok': 0, 'twins_bad': 0,
           'shape': 'stateless|%s|%s' % (method, kw), 'sample': {'kind': 'stateless', 'method': method, 'N': N, 'M': M}}
    if viol:
        res['status'] = 'violation'
    elif incon:
        res['status'] = 'inconclusive'
    return res


def run(item):
    if item.get('kind') == 'stateless':
        return run_stateless(item)
    spec, cfg = item['spec'], item['cfg']
    inst = Inst(spec, cfg, seed=item.get('seed', 0), poly=item.get('poly', False),
                extra_outputs=lambda b: [b.ocp.value(b.ocp.objective)])
    ch = Checker(inst)
    viol = []
    doms = inst.domains()
    mut = item.get('mut')
    spec_ref = spec
    if mut == 'drop_last_term':
        spec_ref = copy.deepcopy(spec)
        spec_ref.objective = spec.objective[:-1]

    def refobj(tr):
        tr.spec = spec_ref
        return Ref(tr).objective()
    fr = multi(inst, refobj)
    fi = {d: inst.view(d)[0] for d in doms}
    fv = {d: inst.view(d)[5][0][0] for d in doms}

    def V(key, label, detail, pt=None):
        viol.append(describe_violation(inst, PROP, '%s|%s' % (key, cfg.method), label, detail, pt))
    for label, a, b, key in (('opti.f == sum(terms)', fi, fr, 'objective'), ('value(ocp.objective) == opti.f', fv, fi, 'objective-value')):
        ok = ch.prove(label, a, b)
        if not ok and ch.violations:
            v = ch.violations.pop()
            V(key, label, '%s: %s' % (label, {k: v[k] for k in ('how', 'impl', 'ref') if k in v}),
              inst.pts[v['point']] if v.get('point') is not None else v.get('model'))
    # twin: dropping the last declared term must be noticed
    twins_ok = twins_bad = 0
    if not mut and len(spec.objective) > 1:
        ch2 = Checker(inst, timeout_ms=5000)
        s2 = copy.deepcopy(spec)
        s2.objective = spec.objective[:-1]

        def refobj2(tr):
            tr.spec = s2
            return Ref(tr).objective()
        lastf = [Ref(inst.traj(d)).top(spec.objective[-1]) for d in doms if d != 'z']
        if all(abs(float(v)) < 1e-12 for v in lastf):
            pass        # the dropped term vanishes identically (e.g. t0 = 0): nothing to tell apart
        else:
            ok = ch2.prove('twin', fi, multi(inst, refobj2))
            if ok:
                twins_bad += 1
            else:
                twins_ok += 1
    r = result(inst, ch, {'violations': viol, 'twins_ok': twins_ok, 'twins_bad': twins_bad,
                          'shape': '%s|%s|%s' % (cfg.tag(), spec.t0[0] + '/' + spec.T[0], repr(spec.objective)),
                          'sample': {'cfg': cfg.tag(), 'horizon': [spec.t0[0], spec.T[0]], 'objective': repr(spec.objective),
                                     'ode': repr(spec.ode), 'proved': len(ch.proved)}})
    if viol:
        r['status'] = 'violation'
    return r
