"""C10 The solver starts from exactly the user's initial guess."""
import copy
import random
from fractions import Fraction as Fr

import casadi as ca
import numpy as np

from .. import families as fam
from ..dsl import (Cfg, Spec, Sym, Con, E, X, U, Z, Pg, Vg, t, T, t0, tf, nl1, nl2, at_t0, at_tf, integral, sum_, C, ev, leaves)
from ..extract import declare, quiet, guess_value
from ..instance import Inst
from ..match import Checker, close
from ..sx2smt import emb, SXProgram
from .common import describe_violation, result, compare_nlps, bind_positional

PROP = 'C10'
LEVEL = 'other'
META = {
    'rule': 'instance = (model, guess list (target, form), method, N, M, grid, horizon kinds, when: before/after the first transcription).  (a) ground: the starting point read back in physical units '
            'through the named quantities equals the expected guess at every node/interval/collocation point (constants; time expressions at the node times implied by the guessed t0,T; arrays column-wise; '
            'zero default; last call wins); (b) symbolic: every expression rockit evaluates at the initial point (OptiAdvanced.value is wrapped to log it) is proven equal, for ALL guessed t0/T, to the guess '
            'expression at the named node times (z3); (c) objective/constraints are unchanged by guesses (two real transcriptions, all x); (d) before/after-transcription orders give the same starting point',
    'functions': ['rockit/stage.py:set_initial', 'rockit/sampling_method.py:SamplingMethod.set_initial and the two-pass application in transcribe (phase 2)', 'rockit/direct_collocation.py:DirectCollocation.set_initial',
                  'rockit/direct_method.py:DirectMethod.set_initial/OptiWrapper.set_initial/initial', 'rockit/direct_method.py:fill_placeholders_T/t0 (guess of free horizons)'],
    'bounds': 'guess forms: scalar, n x N, n x (N+1) (states), DM/list, expression of time; targets: states, controls (scalar, and a 2-vector control next to a scalar one), global/per-interval/control+ variables, algebraics (DC), free T/t0 (one horizon variable guessed up to three times through its two names); ground kind retry: a second query after a transcription that failed on an ill-shaped guess; MS/SS/DC; N<=3, M<=2; uniform/geometric/localized grids',
    'outside': 'guess VALUES travel through CasADi\'s numeric Opti store and cannot be symbolic: routing is a ground check with distinct values; (N+1)-column guesses for controls (not meaningful); bspline signals; IEEE rounding',
    'assumptions': ['casadi.OptiAdvanced.value is wrapped by a logging shim (attribute patch from /verif) to see which expression is evaluated at the starting point', 'reals for floats'],
    'explanation': 'ground routing check of the starting vector + solver-checked identity of the time-expression guesses for all guessed horizons + relational invariance of the NLP',
}


def base_model(dae=False):
    if dae:
        s = copy.deepcopy(fam.dae_core()[0])
    else:
        s = Spec(nx=2, nu=1, ode=[nl1(X(1)) * U(0) + t * X(0), X(0) - X(1) * Pg('a') + Vg('vc') + Vg('w')],
                 params=[Sym('a', value=2)], vars=[Sym('w'), Sym('vc', 'control'), Sym('vp', 'control+')])
        s.cons = [Con('>=', Vg('vp'), X(0) - 10)]
    s.objective = [at_tf(X(0) * X(0)) + integral(U(0) * U(0))]
    return s


def guess_sets(spec, N, dae):
    gs = []
    gs.append([(X(0), Fr(3, 2)), (U(0), Fr(-1, 2))])
    gs.append([(X(0), t * 2 + 1), (X(1), t * t), (U(0), 3 - t)])
    gs.append([(X(0), [[Fr(10 + k) for k in range(N + 1)]]), (U(0), [[Fr(20 + k) for k in range(N)]])])
    gs.append([(X(1), [[Fr(30 + k) for k in range(N)]])])
    gs.append([(X(0), 1), (X(0), t + 5)])                       # last call wins
    if not dae:
        gs.append([(Vg('w'), 7), (Vg('vc'), t * 3), (Vg('vp'), [[Fr(40 + k) for k in range(N + 1)]])])
        gs.append([(Vg('vc'), [[Fr(50 + k) for k in range(N)]]), (Vg('vp'), 2 + t)])
    else:
        gs.append([(Z(0), Fr(9, 4)), (X(0), t)])
        gs.append([(Z(0), t * 2 + 3)])
        gs.append([(Z(0), [[Fr(60 + k) for k in range(N)]])])       # per-interval array guess for an algebraic variable
    return gs


def horizon_guess_sets(spec):
    """guesses for the free horizon given through set_initial, before and after a time-expression guess"""
    hs = []
    if spec.T[0] == 'free':
        hs.append((T, Fr(4)))
    if spec.t0[0] == 'free':
        hs.append((t0, Fr(3)))
    if not hs:
        return []
    ex = [(X(0), t * 2 + 1), (U(0), 3 - t)] + ([(Vg('vc'), t * 3)] if any(v.name == 'vc' for v in spec.vars) else [])
    return [hs + ex, ex + hs, hs[:1] + ex + hs[1:] + [(X(1), t * t)]]


def instances(tier, seed):
    rng = random.Random(seed + 10)
    items = []

    def add(**kw):
        items.append(dict(id='%s#%d' % (PROP, len(items)), **kw))
    H = [h for h in fam.HORIZONS]
    grids = [fam.G_UNI, fam.G_GEO_LOC, fam.G_UNI_LT, fam.G_UNI_LT0, fam.G_GEO_LOC_LT, fam.G_UNI_LTT]
    n = 0
    reps = 1 if tier == 'quick' else 6
    for rep in range(reps):
        for method, intg, dae in (('MS', 'rk', False), ('SS', 'rk', False), ('DC', None, False), ('DC', None, True)):
            N = [2, 3][n % 2] if tier == 'quick' else rng.choice([1, 2, 3])
            M = [1, 2][n % 2] if tier == 'quick' else rng.choice([1, 2])
            base = base_model(dae)
            for gi, gset in enumerate(guess_sets(base, N, dae)):
                h = H[(n + gi) % len(H)]
                g = grids[(n + gi) % len(grids)]
                degree, scheme = [(2, 'radau'), (3, 'radau'), (1, 'legendre')][(n + gi) % 3]
                for when in (('before', 'after') if (gi % 2 == 0 or tier != 'quick') else ('before',)):
                    add(spec=fam.with_horizon(base, h), guesses=gset, when=when,
                        cfg=Cfg(method, N=N, M=M, intg=intg or 'rk', grid=g, degree=degree, scheme=scheme))
            n += 1
    # SingleShooting: a propagated state that is affine in some decision variables with coefficients depending on others
    # (CasADi's Opti then complains about free variables instead of an "arbitrary expression")
    ss = Spec(nx=2, nu=1, ode=[nl1(Vg('vc')) * X(1) * Fr(7, 4), nl1(t * t * Fr(1, 2))], vars=[Sym('vc', 'control')])
    ss.objective = [at_tf(X(0) * X(0)) + integral(U(0) * U(0))]
    for when in ('before', 'after'):
        add(spec=fam.with_horizon(ss, H[1]), guesses=[(X(0), t * 2 + 1), (X(1), Fr(-1, 4)), (U(0), 3 - t)], when=when, cfg=Cfg('SS', N=2, M=1, intg='rk', grid=fam.G_UNI))
    # several algebraic variables, a vector-valued one followed by a scalar one (row ranges inside the stacked algebraic vector)
    for N, M, degree in ((2, 2, 3), (3, 1, 2)):
        sz = Spec(nx=1, nu=1, nz=3, zshape=[2, 1], ode=[Z(0) + Z(2) * U(0) + t],
                  alg=[Z(0) - nl1(X(0)), Z(1) - X(0) * t, Z(2) * 2 - Z(0) - U(0)])
        sz.objective = [at_tf(X(0) * X(0)) + integral(U(0) * U(0))]
        ZG0, ZG1 = E('zg', 0), E('zg', 1)
        for gset in ([(ZG0, Fr(7, 2)), (ZG1, Fr(-3, 4))], [(ZG1, Fr(5, 4))], [(ZG0, [[Fr(10 + k) for k in range(N)], [Fr(20 + k) for k in range(N)]]), (ZG1, t * 2 + 1)],
                     [(ZG1, [[Fr(30 + k) for k in range(N)]]), (ZG0, Fr(1, 2))]):
            for when in ('before', 'after'):
                add(spec=fam.with_horizon(sz, H[(N + M) % len(H)]), guesses=gset, when=when,
                    cfg=Cfg('DC', N=N, M=M, grid=grids[N % 4], degree=degree, scheme='radau'))
    # several control symbols (one stacked decision vector per interval): the last interval keeps the guess of its own start time / column
    for method, intg in (('DC', None), ('MS', 'rk'), ('SS', 'rk')):
        N = 3
        s2 = Spec(nx=2, nu=2, ode=[nl1(X(1)) * U(0) + t * X(0), X(0) - U(1) * X(1)])
        s2.objective = [at_tf(X(0) * X(0)) + integral(U(0) * U(0) + U(1) * U(1))]
        for gset in ([(U(0), t), (U(1), [[Fr(1 + k) for k in range(N + 1)]])], [(U(1), t * 2 + 1), (U(0), [[Fr(5 + k) for k in range(N)]])]):
            for when in ('before', 'after'):
                add(spec=fam.with_horizon(s2, H[1]), guesses=gset, when=when, cfg=Cfg(method, N=N, M=[1, 2][method == 'MS'], intg=intg or 'rk', grid=fam.G_UNI, degree=2, scheme='radau'))
    # MATRIX-valued variables: a global 2x2 variable (also with N = 1, where its shape looks like a per-interval array) and a per-interval
    # 2x2 variable whose array guess holds one 2x2 block per interval
    for method, intg in (('MS', 'rk'), ('DC', None)):
        for N in (1, 2):
            sm_ = base_model(False)
            sm_.vars = list(sm_.vars) + [Sym('Wm', rows=2, cols=2), Sym('Vm', 'control', rows=2, cols=2)]
            sm_.objective = list(sm_.objective) + [Vg('Wm', 1) * Vg('Wm', 1) + Vg('Wm', 2), sum_(Vg('Vm', 0) * Vg('Vm', 3) + Vg('Vm', 1))]
            gset = [(E('vg', 'Wm'), [[Fr(1), Fr(2)], [Fr(3), Fr(4)]]), (E('vg', 'Vm'), [[Fr(10 * r_ + k) for k in range(2 * N)] for r_ in range(1, 3)])]
            for when in ('before', 'after'):
                add(spec=fam.with_horizon(sm_, H[1]), guesses=gset, when=when, cfg=Cfg(method, N=N, M=1, intg=intg or 'rk', grid=fam.G_UNI, degree=2, scheme='radau'))
    # vector-valued state: scalar guess (repeated), n x N and n x (N+1) arrays
    for method, intg in (('MS', 'rk'), ('DC', None), ('SS', 'rk')):
        for N, M in ((2, 2), (3, 1), (1, 1)):
            base = copy.deepcopy(fam.ode_core()[2])
            base.objective = [at_tf(X(0) * X(0)) + integral(U(0) * U(0))]
            XG = E('xg', 0)
            for gset in ([(XG, Fr(7, 2))], [(XG, [[Fr(10 + k) for k in range(N + 1)], [Fr(20 + k) for k in range(N + 1)]])],
                         [(XG, [[Fr(30 + k) for k in range(N)], [Fr(40 + k) for k in range(N)]]), (X(2), 5)],
                         [(XG, t * 2 + 1)]):          # a SCALAR expression of time for the vector-valued state: every component follows it
                for when in ('before', 'after'):
                    add(spec=fam.with_horizon(base, H[(N + M) % len(H)]), guesses=gset, when=when,
                        cfg=Cfg(method, N=N, M=M, intg=intg or 'rk', grid=grids[N % len(grids)], degree=2, scheme='radau'))
    # a VECTOR-valued control next to a scalar one: per-node arrays (n x N and n x (N+1): the last interval keeps column N-1) and a time expression
    for method, intg in (('DC', None), ('MS', 'rk'), ('SS', 'rk')):
        for N in (3, 1):
            base = Spec(nx=2, nu=3, ode=[X(1) + U(0), U(1) - U(2) * X(0)], ushape=[2, 1], note='vector-valued control next to a scalar control')
            base.objective = [at_tf(X(0) * X(0)) + integral(U(0) * U(0) + U(1) * U(1) + U(2) * U(2))]
            base.cons = [Con('==', at_t0(X(0)), 1)]
            UG = E('ug', 0)
            for gset in ([(UG, [[Fr(10 + k) for k in range(N + 1)], [Fr(20 + k) for k in range(N + 1)]]), (U(2), t * 3 - 1)],
                         [(UG, [[Fr(30 + k) for k in range(N)], [Fr(40 + k) for k in range(N)]])],
                         [(UG, [t * 2 + 1, 5 - t]), (U(2), [[Fr(7 + k) for k in range(N + 1)]])]):
                for when in ('before', 'after'):
                    add(spec=fam.with_horizon(base, H[1]), guesses=gset, when=when, cfg=Cfg(method, N=N, M=1, intg=intg or 'rk', grid=fam.G_UNI, degree=2, scheme='radau'))
    for method in ('MS', 'DC'):
        for when in ('before', 'after'):
            add(kind='alias', method=method, when=when)
        add(kind='retry', method=method)
    # guesses for free t0/T through set_initial, in every order relative to the time-expression guesses and to the transcription
    Hfree = [h for h in H if h[0][0] == 'free' or h[1][0] == 'free']
    n = 0
    for method, intg, dae in (('MS', 'rk', False), ('DC', None, False), ('SS', 'rk', False), ('DC', None, True)):
        for h in Hfree:
            base = fam.with_horizon(base_model(dae), h)
            for gi, gset in enumerate(horizon_guess_sets(base)):
                whens = ('before', 'after', 'mixed') if (tier != 'quick' or (n + gi) % 2 == 0) else (('before', 'mixed') if gi == 0 else ('after',))
                for when in whens:
                    add(spec=base, guesses=gset, when=when,
                        cfg=Cfg(method, N=[2, 3][n % 2], M=[1, 2][(n // 2) % 2], intg=intg or 'rk', grid=grids[n % len(grids)], degree=[2, 3][n % 2], scheme='radau'))
            n += 1
    return items


class ValueLog:
    """logging shim around casadi.OptiAdvanced.value"""

    def __init__(self):
        self.exprs = []

    def __enter__(self):
        self.orig = ca.OptiAdvanced.value
        log = self.exprs
        orig = self.orig

        def logged(self_, *args):
            if args and isinstance(args[0], ca.MX) and len(args) > 1:
                log.append(args[0])
            return orig(self_, *args)
        ca.OptiAdvanced.value = logged
        return self

    def __exit__(self, *a):
        ca.OptiAdvanced.value = self.orig


def run_alias(item):
    """GROUND: the horizon assigned through set_T(variable) has two names (the variable and ocp.T); the last set_initial call wins,
    whichever name it uses, before and after the first transcription"""
    from ..extract import Ocp, MultipleShooting, DirectCollocation
    viol, proved = [], []
    for order in ('var-then-T', 'T-then-var', 'var-T-var', 'T-var-T'):
        with quiet():
            ocp = Ocp()
            x = ocp.state()
            u = ocp.control()
            ocp.set_der(x, u)
            Tv = ocp.variable()
            ocp.set_T(Tv)
            ocp.subject_to(Tv >= 0.1)
            ocp.subject_to(ocp.at_t0(x) == 0)
            ocp.add_objective(ocp.integral(u * u) + ocp.T)
            ocp.solver('ipopt')
            ocp.method(MultipleShooting(N=3) if item['method'] == 'MS' else DirectCollocation(N=2))
            if item['when'] == 'after':
                ocp._transcribed
            calls = {'var-then-T': [(Tv, 1.25), (ocp.T, 2.5)], 'T-then-var': [(ocp.T, 2.5), (Tv, 1.25)],
                     # a name used AGAIN after the other one: still the last call
                     'var-T-var': [(Tv, 1.25), (ocp.T, 2.5), (Tv, 3.75)], 'T-var-T': [(ocp.T, 2.5), (Tv, 1.25), (ocp.T, 0.75)]}[order]
            for sym, val in calls:
                ocp.set_initial(sym, val)
            ocp.set_initial(x, 2 * ocp.t)
            ocp._transcribed
            opti = ocp._method.opti
            got = float(opti.debug.value(ocp.value(ocp.T), opti.initial()))
            xs = [float(v) for v in np.array(opti.debug.value(ocp.sample(x, grid='control')[1], opti.initial())).flatten()]
        want = calls[-1][1]
        if not close(got, want):
            viol.append({'property': PROP, 'key': 'last-call-wins:alias|%s|%s' % (item['method'], item['when']), 'label': order, 'cfg': item['method'], 'spec': 'set_T(variable)',
                         'detail': 'guesses %s in this order for the same horizon (two names): the starting value is %r, the last call gave %r' % ([c_[1] for c_ in calls], got, want)})
        elif not close(xs[-1], 2 * want):
            viol.append({'property': PROP, 'key': 'alias-guess-times|%s|%s' % (item['method'], item['when']), 'label': order, 'cfg': item['method'], 'spec': 'set_T(variable)',
                         'detail': 'state guess 2*t at the final node starts at %r, the guessed horizon %r implies %r' % (xs[-1], want, 2 * want)})
        else:
            proved.append('last call wins for the two names of the horizon (%s, %s, %s)' % (order, item['method'], item['when']))
    res = {'stats': {}, 'obligations': len(proved) + len(viol), 'discharged': len(proved), 'nontrivial': proved, 'violations': viol, 'shape': 'alias %s %s' % (item['method'], item['when']),
           'sample': {'kind': 'alias (ground)', 'method': item['method'], 'when': item['when']}}
    if viol:
        res['status'] = 'violation'
    return res


def run_retry(item):
    """GROUND: a guess that does not fit makes the first query raise; asking again must not quietly run WITHOUT the guesses (the rejected one and
    every guess given with it): it raises again, or every fitting guess is in effect"""
    from ..extract import Ocp, MultipleShooting, DirectCollocation
    viol, proved = [], []
    with quiet():
        ocp = Ocp(T=1)
        x = ocp.state()
        u = ocp.control()
        ocp.set_der(x, u)
        ocp.subject_to(ocp.at_t0(x) == 0)
        ocp.add_objective(ocp.integral(u * u))
        ocp.set_initial(u, np.ones((3, 7)))      # fits neither N nor N+1 columns, nor the single row of u
        ocp.set_initial(x, 2.0)
        ocp.solver('ipopt')
        ocp.method(MultipleShooting(N=4) if item['method'] == 'MS' else DirectCollocation(N=4))
        outcome = []
        for attempt in range(2):
            try:
                ocp._transcribed
                opti = ocp._method.opti
                outcome.append([float(v) for v in np.array(opti.debug.value(ocp.sample(x, grid='control')[1], opti.initial())).flatten()])
            except Exception as e:
                outcome.append('raised')
    if outcome[0] != 'raised':
        proved.append('the ill-shaped guess was accepted by the first query (nothing to retry)')
    elif outcome[1] == 'raised':
        proved.append('the second query raises like the first')
    elif all(close(v, 2.0) for v in outcome[1]):
        proved.append('the second query runs with the fitting guesses in effect')
    else:
        viol.append({'property': PROP, 'key': 'guesses-dropped-after-failed-transcription|%s' % item['method'], 'label': 'second query', 'cfg': item['method'], 'spec': 'set_initial(u, ones(3,7)); set_initial(x, 2)',
                     'detail': 'the first query raised on the ill-shaped guess; the second query ran quietly and starts x at %s although set_initial(x, 2.0) was given' % outcome[1]})
    res = {'stats': {}, 'obligations': 1, 'discharged': len(proved), 'nontrivial': proved, 'violations': viol, 'shape': 'retry %s' % item['method'],
           'sample': {'kind': 'retry (ground)', 'method': item['method'], 'outcomes': [o if o == 'raised' else 'ran' for o in outcome]}}
    if viol:
        res['status'] = 'violation'
    return res


def run(item):
    if item.get('kind') == 'alias':
        return run_alias(item)
    if item.get('kind') == 'retry':
        return run_retry(item)
    spec0, cfg, guesses, when = item['spec'], item['cfg'], item['guesses'], item['when']
    N, M = cfg.N, cfg.M
    viol = []
    spec = copy.deepcopy(spec0)
    spec_plain = copy.deepcopy(spec0)
    log = ValueLog()
    with log:
        if when == 'before':
            spec.initial = list(guesses)
            I = Inst(spec, cfg, seed=item.get('seed', 0))
        else:
            nbefore = 0 if when == 'after' else (len(guesses) + 1) // 2       # 'mixed': first half before the transcription, the rest after
            spec_plain.initial = list(guesses[:nbefore])
            with quiet():
                b = declare(spec_plain, cfg)
                b.ocp.solver('ipopt')
                b.ocp._transcribed
                log.exprs.clear()
                for tgt, val in guesses[nbefore:]:
                    b.ocp.set_initial(b.mx(tgt), guess_value(val, b))
            I = Inst(spec_plain, cfg, seed=item.get('seed', 0), built=b, solver=False)
    ch = Checker(I)
    z3 = I.z3

    def V(key, label, detail):
        viol.append(describe_violation(I, PROP, '%s|%s|%s' % (key, cfg.method, when), label, detail))
    # ---- (a) ground read-back of the starting point -------------------------------------------------------
    nlp = I.nlp
    x0 = list(nlp.x0())
    pv = list(nlp.pval())
    o = I.prog.run(I.fdom, nlp.split(x0, nlp.xsyms) + nlp.split(pv, nlp.psyms))
    nn = len(I.named.items)
    tr0 = I.named.traj(o[4:4 + nn], I.fdom)
    final = {}
    for tgt, val in guesses:
        if tgt.op == 'xg':
            # guess for a whole vector-valued state: a scalar is repeated, an array has one row per element
            from ..extract import state_groups
            off = 0
            for gi_, (r_, c_) in enumerate(state_groups(spec0)):
                if gi_ == tgt.a[0]:
                    for j_ in range(r_ * c_):
                        final[repr(X(off + j_))] = (X(off + j_), val if isinstance(val, (int, Fr, E)) else [val[j_]])
                off += r_ * c_
            continue
        if tgt.op == 'ug':
            # guess for a whole vector-valued control: a scalar (expression) is repeated, an array has one row per element
            off = 0
            for gi_, n__ in enumerate(spec0.ushape):
                if gi_ == tgt.a[0]:
                    for j_ in range(n__):
                        final[repr(U(off + j_))] = (U(off + j_), val if isinstance(val, (int, Fr, E)) else (val[j_] if isinstance(val[j_], E) else [val[j_]]))
                off += n__
            continue
        if tgt.op == 'vg':
            final['vg:' + tgt.a[0]] = (tgt, val)
            continue
        if tgt.op == 'zg':
            off = 0
            for gi_, n__ in enumerate(spec0.zshape):
                if gi_ == tgt.a[0]:
                    for j_ in range(n__):
                        final[repr(Z(off + j_))] = (Z(off + j_), val if isinstance(val, (int, Fr, E)) else [val[j_]])
                off += n__
            continue
        final[repr(tgt)] = (tgt, val)          # last call for a symbol wins

    def expect(val, tt, col, ncols_ok):
        if isinstance(val, E):
            return ev(val, lambda op, a: tt if op == 't' else None, I.fdom)
        if isinstance(val, (int, Fr)):
            return float(val)
        row = val[0]
        if col is None or col >= len(row):
            return None
        return float(row[col])
    tdef = set(final)
    checks = 0

    def cmp(label, got, want):
        nonlocal checks
        if want is None:
            return
        checks += 1
        if not close(float(got), float(want), 1e-9):
            V('start-value:' + label.split('[')[0], label, 'starting value read back in physical units is %r, the guess implies %r' % (float(got), float(want)))
    for i in range(spec.nx):
        ent = final.get(repr(X(i)))
        nodes = range(N + 1) if cfg.method != 'SS' else [0]
        for k in nodes:
            want = expect(ent[1], tr0.tc[k], k, None) if ent else 0.0
            if ent and not isinstance(ent[1], (E, int, Fr)) and len(ent[1][0]) == N and k == N:
                want = None     # n x N array: the final node is not specified
            cmp('X[%d][%d]' % (k, i), tr0.X[k][i], want)
        if cfg.method == 'DC':
            for n_, col in enumerate(tr0.Xi[:-1]):
                k = n_ // M
                want = (expect(ent[1], tr0.ti[n_], k, None) if ent else 0.0)
                cmp('Xi[%d][%d]' % (n_, i), col[i], want)
            for n_, col in enumerate(tr0.Xr):
                k = n_ // (M * cfg.degree)
                want = (expect(ent[1], tr0.tr[n_], k, None) if ent else 0.0)
                cmp('Xr[%d][%d]' % (n_, i), col[i], want)
    for i in range(spec.nu):
        ent = final.get(repr(U(i)))
        for k in range(N):
            cmp('U[%d][%d]' % (k, i), tr0.U[k][i], expect(ent[1], tr0.tc[k], k, None) if ent else 0.0)
    for v in spec.vars:
        entm = final.get('vg:' + v.name)
        if entm is not None:
            # matrix-valued variable, guess given as rows x cols (global) or rows x (cols * N) (one block per interval); elements column-major
            blocks = [tr0.V[v.name]] if v.grid == '' else tr0.Vc[v.name]
            for k, col in enumerate(blocks):
                for c_ in range(v.cols):
                    for r_ in range(v.rows):
                        cmp('V[%s][%d][%d,%d]' % (v.name, k, r_, c_), col[c_ * v.rows + r_], float(entm[1][r_][k * v.cols + c_]))
            continue
        ent = final.get(repr(Vg(v.name)))
        if v.grid == '':
            cmp('V[%s]' % v.name, tr0.V[v.name][0], expect(ent[1], None, None, None) if ent and not isinstance(ent[1], E) else (0.0 if not ent else None))
        else:
            cols = tr0.Vc[v.name]
            for k, col in enumerate(cols):
                cmp('Vc[%s][%d]' % (v.name, k), col[0], expect(ent[1], tr0.tc[k], k, None) if ent else 0.0)
    if spec.nz and cfg.method == 'DC':
        for a_ in range(spec.nz):
            ent = final.get(repr(Z(a_)))
            for n_, col in enumerate(tr0.Zr):
                k = n_ // (M * cfg.degree)
                cmp('Zr[%d][%d]' % (n_, a_), col[a_], (expect(ent[1], tr0.tr[n_], k, None) if ent else 0.0))
    # node times at the starting point are the declared partition of [t0, t0+T] at the guessed t0, T (localized time variables included)
    if cfg.grid[0] != 'free':
        from ..extract import make_grid
        nk = [float(v) for v in np.array(ca.DM(make_grid(cfg.grid)(0, 1, N))).flatten()]
        for k in range(N + 1):
            want_t = float(tr0.t0) + float(tr0.T) * nk[k]
            checks += 1
            if not close(float(tr0.tc[k]), want_t, 1e-9):
                V('start-node-times', 'tc[%d]' % k, 'node time at the starting point is %r, the guessed t0=%r, T=%r and the declared grid imply %r' % (float(tr0.tc[k]), float(tr0.t0), float(tr0.T), want_t))
    for hname, kind, leaf_ in (('T', spec.T, T), ('t0', spec.t0, t0)):
        if kind[0] == 'free':
            ent = final.get(repr(leaf_))
            cmp(hname, getattr(tr0, hname), float(ent[1]) if ent else float(kind[1]))
    ch.proved.append('start vector read-back (%d entries, ground)' % checks)
    twins_ok = twins_bad = 0
    for tgt, val in final.values():
        if tgt.op == 'u' and isinstance(val, E) and N >= 2:
            # twin (vacuity): the control of interval 0 does not start at the guess evaluated at the NEXT interval's start
            wrong = ev(val, lambda op, a: tr0.tc[1], I.fdom)
            if not close(float(tr0.U[0][tgt.a[0]]), float(wrong)):
                twins_ok += 1
            else:
                twins_bad += 1
            break
    # ---- (b) expressions evaluated at the initial point, for all guessed t0/T ------------------------------
    tguess = [(tgt, val) for tgt, val in final.values() if isinstance(val, E)
              and not (tgt.op == 'u' and getattr(spec0, 'ushape', None))]      # (vector-of-expressions guesses of a vector-valued control are evaluated as one matrix: covered by the ground read-back (a))
    if tguess and log.exprs:
        syms = nlp.xsyms + nlp.psyms
        cand = []
        for e in log.exprs:
            try:
                if e.numel() >= 1 and all(any(ca.is_equal(s_, q) for q in syms) for s_ in ca.symvar(e)):
                    cand.append(e)
            except Exception:
                pass
        if cand:
            prog = SXProgram(syms, cand)
            zl = prog.run(I.zdom, nlp.split(I.xv, nlp.xsyms) + nlp.split(I.pv, nlp.psyms))
            fl = [prog.run(I.fdom, nlp.split(p[0], nlp.xsyms) + nlp.split(p[1], nlp.psyms)) for p in I.pts]
            trs = {d: I.traj(d) for d in I.domains()}

            def time_seqs(tr, n_):
                """candidate node-time sequences of length n_"""
                seqs = []
                if n_ == N:
                    seqs.append(tr.tc[:N])
                if n_ == N + 1:
                    seqs.append(tr.tc)
                if n_ == N * M + 1:
                    seqs.append(tr.ti)
                if hasattr(tr, 'tr'):
                    if n_ == len(tr.tr):
                        seqs.append(tr.tr)
                    if n_ == cfg.degree:
                        for c0 in range(0, len(tr.tr), cfg.degree):
                            seqs.append(tr.tr[c0:c0 + cfg.degree])
                return seqs
            matched = set()
            for ci, e in enumerate(cand):
                n_ = e.numel()
                hit = None
                nseq = len(time_seqs(trs[0], n_))
                for gi_, (tgt, val) in enumerate(tguess):
                    for si in range(nseq):
                        # which guess expression / which node times is this?  decide numerically, confirm with the solver
                        okn = True
                        for pi in range(len(I.pts)):
                            tt = time_seqs(trs[pi], n_)[si]
                            for j in range(n_):
                                if not close(fl[pi][ci][j], ev(val, lambda op, a, j=j: tt[j], I.fdom)):
                                    okn = False
                        if okn:
                            hit = (gi_, tgt, val, si)
                            break
                    if hit:
                        break
                if hit is None:
                    continue
                gi_, tgt, val, si = hit
                tt = time_seqs(trs['z'], n_)[si]
                allok = True
                for j in range(n_):
                    r, m = ch.neq(zl[ci][j], ev(val, lambda op, a, j=j: tt[j], I.rdom))
                    if r != 'unsat':
                        allok = False
                if allok:
                    matched.add(gi_)
                    # one evaluation serves every component of a vector-valued symbol that was given this (scalar) expression
                    matched |= {g2 for g2, (t2, v2) in enumerate(tguess) if repr(v2) == repr(val) and t2.op == tgt.op == 'x'}
                    ch.proved.append('evaluated guess expression of %r == e(node times) for all guessed t0,T (%d points)' % (tgt, n_))
                    ch.nontrivial.add('guess-expr %r n=%d' % (tgt, n_))
            for gi_, (tgt, val) in enumerate(tguess):
                if gi_ not in matched:
                    V('guess-expression-times', repr(tgt), 'no expression evaluated at the starting point equals the time-expression guess %r at the node / interval-start times for all guessed t0,T' % (val,))
    # ---- (c) guesses never change the NLP ------------------------------------------------------------------
    P0 = Inst(copy.deepcopy(spec0), cfg, seed=item.get('seed', 0), like=I, bind=bind_positional())
    diffs, npairs = compare_nlps(ch, I, P0, 'with-guesses', 'without')
    for key, label, detail in diffs:
        V('nlp-changed:' + key, label, detail)
    # ---- (d) order relative to transcription ---------------------------------------------------------------
    if when in ('after', 'mixed'):
        sb = copy.deepcopy(spec0)
        sb.initial = list(guesses)
        Bf = Inst(sb, cfg, seed=item.get('seed', 0))
        xa, xb = list(I.nlp.x0()), list(Bf.nlp.x0())
        if len(xa) != len(xb) or not all(close(float(a), float(c)) for a, c in zip(xa, xb)):
            bad = [i for i, (a, c) in enumerate(zip(xa, xb)) if not close(float(a), float(c))]
            V('order-dependence', 'x0', 'guesses given after the first transcription give a different starting point than the same guesses given before (entries %s: %s vs %s)' % (bad[:6], [xa[i] for i in bad[:6]], [xb[i] for i in bad[:6]]))
        else:
            ch.proved.append('before/after transcription: same starting point')
    r = result(I, ch, {'violations': viol, 'twins_ok': twins_ok, 'twins_bad': twins_bad, 'shape': '%s|%s|%s|%s' % (cfg.tag(), when, spec.t0[0] + '/' + spec.T[0], repr(guesses)),
                       'sample': {'cfg': cfg.tag(), 'when': when, 'guesses': [(repr(a), repr(b_) if isinstance(b_, E) else str(b_)) for a, b_ in guesses], 'entries_checked': checks,
                                  'logged_expressions': len(log.exprs)}})
    r['obligations'] += checks
    r['discharged'] += checks - len([v for v in viol if v['key'].startswith('start-value')])
    if viol:
        r['status'] = 'violation'
    return r
