"""C09 A parametric OCP is the family of OCPs with the values written in."""
import copy
import random
from fractions import Fraction as Fr

import casadi as ca
import numpy as np

from .. import families as fam
from ..dsl import (nxt, Cfg, Spec, Sym, Con, E, X, U, Pg, Vg, t, T, t0, tf, nl1, nl2, at_t0, at_tf, integral, sum_, C)
from ..extract import param_value, quiet
from ..instance import Inst, NPTS
from ..match import Checker, close
from ..sx2smt import emb, RZ
from ..ref.semantics import Ref
from ..ref import shooting as rsh, collocation as rco
from .common import multi, impl_atoms, model_vars, describe_violation, result, compare_nlps, bind_positional

PROP = 'C09'
LEVEL = 'translation_validation'
META = {
    'rule': 'instance = (model with global / per-interval / control+ / matrix / horizon parameters, values, method, N, M, grid, call order).  (i) the parametric NLP f,g,lbg,ubg(x,p) '
            'is in row bijection with the reference transcription in which parameter entries are symbols (all values at once); (ii) routing: after set_value the numeric parameter '
            'vector read through the named quantities equals the declared element/column (tagged distinct values; ground); (iii) relational: parametric OCP with p bound to v vs the '
            'same OCP with v written as constants (two real transcriptions, all x); (iv) call orders of set_value relative to transcription (ground on opti.p and x0)',
    'functions': ['rockit/stage.py:parameter/register_parameter/set_value/_param_value', 'rockit/sampling_method.py:add_parameter/set_parameter/set_value/get_p_control_at/get_p_control_plus_at/get_p_sys',
                  'rockit/direct_method.py:add_parameters/set_parameter/set_value/eval_top'],
    'bounds': '<=4 parameters of mixed kinds, shapes up to 2x2; MS/SS/DC; N<=3, M<=2 (thorough N<=4); histories of set_value/transcribe of length <=5 (including returning to the transcription-time value); values rational',
    'outside': 'bspline parameters (C17); values flow through CasADi\'s numeric Opti store (value-independence of that copy is assumed: routing checked with tagged values); IEEE rounding',
    'assumptions': ['reals for floats; constants identified up to 1e-10', 'variables of the two transcriptions correspond by creation order'],
}


def pmodel():
    """model using every parameter kind in dynamics, constraints, objective"""
    s = Spec(nx=2, nu=1,
             ode=[nl1(X(1)) * U(0) * Pg('a') + t * Pg('m', 2), nl2(X(0), Pg('pc')) - X(1) * Pg('pp') + Pg('m', 1)],
             params=[Sym('a', value=Fr(3, 2)),
                     Sym('pc', 'control', value=None), Sym('pp', 'control+', value=None),
                     Sym('m', rows=2, cols=2, value=[[Fr(11), Fr(13)], [Fr(12), Fr(14)]]),
                     Sym('vec', 'control', rows=2, value=None)],
             note='all parameter kinds')
    s.cons = [Con('<=', X(0), Pg('pc') + Pg('m', 3)), Con('>=', X(1), -Pg('pp')), Con('==', at_t0(X(0)), Pg('a')),
              Con('<=', at_tf(X(1)), Pg('m', 0) * Pg('pp')), Con('<=', U(0) * Pg('vec', 1), Pg('vec', 0) + 40),
              # per-node / per-interval parameters inside shifted operands: the instance of the last interval reads the final column
              Con('<=', nxt(X(0)) - nxt(Pg('pp')), 60), Con('>=', nxt(Pg('pc') * X(1)) + X(0), -70)]
    s.objective = [integral(X(0) * Pg('pc')), sum_(U(0) * U(0) * Pg('vec', 0)), at_tf(X(1)) * Pg('a'), sum_(X(0) * Pg('pp'), include_last=True)]
    return s


def fill_values(s, N):
    """distinct tagged values per element / column"""
    s = copy.deepcopy(s)
    for p in s.params:
        if p.value is not None:
            continue
        ncol = (N if p.grid == 'control' else N + 1) * p.cols
        base = {'pc': 20, 'pp': 30, 'vec': 50}.get(p.name, 70)
        p.value = [[Fr(base + 10 * r + k, 8) + Fr(r) for k in range(ncol)] for r in range(p.rows)]
    return s


def inline(spec, names):
    """write the values of the global parameters `names` into the expressions"""
    s = copy.deepcopy(spec)
    vals = {}
    for p in s.params:
        if p.name in names:
            v = p.value
            if isinstance(v, (int, Fr)):
                vals[p.name] = [Fr(v)]
            else:
                vals[p.name] = [Fr(v[r][c]) for c in range(p.cols) for r in range(p.rows)]   # column-major

    def sub(e):
        if not isinstance(e, E):
            return e
        if e.op == 'p' and e.a[0] in vals:
            return E('c', vals[e.a[0]][e.a[1]])
        return E(e.op, *[sub(x) for x in e.a])
    s.ode = [sub(e) for e in s.ode] if s.ode else s.ode
    s.nxt = [sub(e) for e in s.nxt] if s.nxt else s.nxt
    s.objective = [sub(e) for e in s.objective]
    for c in s.cons:
        c.lhs, c.rhs = sub(c.lhs), sub(c.rhs)
        c.mid = sub(c.mid) if c.mid is not None else None
    s.params = [p for p in s.params if p.name not in names]
    for k in ('T', 't0'):
        h = getattr(s, k)
        if h[0] == 'param' and h[1] in vals:
            setattr(s, k, ('num', vals[h[1]][0]))
    return s


def instances(tier, seed):
    rng = random.Random(seed + 9)
    items = []

    def add(**kw):
        items.append(dict(id='%s#%d' % (PROP, len(items)), **kw))
    grids = [fam.G_UNI, fam.G_GEO_LOC, fam.G_UNI_LT]
    H = fam.HORIZONS
    n = 0
    reps = 1 if tier == 'quick' else 6
    for rep in range(reps):
        for method, intg in (('MS', 'rk'), ('SS', 'rk'), ('DC', None), ('MS', 'expl_euler')):
            for hi in (0, 5, 2):
                N = [2, 3][n % 2] if tier == 'quick' else rng.choice([1, 2, 3, 4])
                M = [1, 2][(n // 2) % 2]
                g = grids[n % len(grids)]
                degree, scheme = [(2, 'radau'), (1, 'legendre')][n % 2]
                s = fam.with_horizon(fill_values(pmodel(), N), H[hi])
                add(kind='nlp', spec=s, cfg=Cfg(method, N=N, M=M, intg=intg or 'rk', grid=g, degree=degree, scheme=scheme))
                n += 1
    # call orders
    orders = [['T', 'a2'], ['a2', 'T'], ['T', 'a2', 'pc2'], ['T', 'pc2', 'a2', 'a3'], ['T', 'a2', 'T2'], ['a2', 'T', 'vec2', 'pp2'],
              ['T', 'a2', 'a0'], ['T', 'pc2', 'T2', 'pc0'], ['T', 'a2', 'pp2', 'a0', 'pp0']]      # ... and back to the value the problem was transcribed with
    for oi, order in enumerate(orders if tier == 'quick' else orders * 2):
        method = ['MS', 'SS', 'DC'][oi % 3]
        N = 2 + (oi % 2)
        add(kind='order', spec=fill_values(pmodel(), N), cfg=Cfg(method, N=N, M=1, intg='rk', grid=fam.G_UNI, degree=2, scheme='radau'), order=order)
    # guesses that DEPEND on a parameter value: a time-expression guess on a parametric horizon, a guess written in a parameter;
    # a value changed after the transcription must reach the starting point as it does when written in
    for oi, order in enumerate([['T', 'pT2'], ['T', 'a2'], ['T', 'pT2', 'a2', 'T2'], ['pT2', 'T']]):
        for method, g in (('MS', fam.G_UNI), ('DC', fam.G_UNI_LT), ('MS', fam.G_GEO_LOC)):
            sp = fam.with_horizon(fill_values(pmodel(), 2), H[5])
            sp.initial = [(X(0), t * 2 + 1), (X(1), Pg('a') * 3), (U(0), t * Pg('a'))]
            add(kind='order', spec=sp, cfg=Cfg(method, N=2, M=1, intg='rk', grid=g, degree=2, scheme='radau'), order=order)
    # a MATRIX-valued per-interval parameter (one 2x2 block per interval) updated after the transcription
    for oi, order in enumerate([['T', 'mc2'], ['mc2', 'T'], ['T', 'mc2', 'a2', 'T2', 'mc0']]):
        for method in ('MS', 'DC'):
            sp = pmodel()
            sp.params = list(sp.params) + [Sym('mc', 'control', rows=2, cols=2, value=None)]
            sp.cons = list(sp.cons) + [Con('<=', X(0) * Pg('mc', 1) + Pg('mc', 2), Pg('mc', 0) + Pg('mc', 3) + 900)]
            add(kind='order', spec=fam.with_horizon(fill_values(sp, 3), H[0]), cfg=Cfg(method, N=3, M=1, intg='rk', grid=fam.G_UNI, degree=2, scheme='radau'), order=order)
    # one set_value call on a concatenation that contains a MATRIX-valued parameter followed by another parameter
    for oi, order in enumerate([['mg2', 'T'], ['T', 'mg2'], ['T', 'mg2', 'a2', 'T2']]):
        sp = pmodel()
        sp.params = list(sp.params) + [Sym('g2', rows=2, value=[[Fr(15)], [Fr(16)]])]
        sp.cons = list(sp.cons) + [Con('<=', X(1) * Pg('g2', 0), Pg('g2', 1) + 800)]
        add(kind='order', spec=fam.with_horizon(fill_values(sp, 2), H[0]), cfg=Cfg(['MS', 'DC', 'SS'][oi], N=2, M=1, intg='rk', grid=fam.G_UNI, degree=2, scheme='radau'), order=order)
    # a PARAMETRIC horizon on a grid with localized time variables and no expression guess at all: the guesses of the local time variables follow the value
    for oi, order in enumerate([['T', 'pT2'], ['pT2', 'T'], ['T', 'pT2', 'a2', 'T2']]):
        for method, g in (('MS', fam.G_UNI_LT), ('DC', fam.G_FREE), ('SS', fam.G_UNI_LT0), ('MS', fam.G_GEO_LOC_LT)):
            sp = fam.with_horizon(fill_values(pmodel(), 2), H[5])
            sp.initial = [(X(0), Fr(3, 2))]
            add(kind='order', spec=sp, cfg=Cfg(method, N=2, M=1, intg='rk', grid=g, degree=2, scheme='radau'), order=order)
    # parameters of stages: every stage (clones of one template included) carries its OWN value, given before the transcription, changed after it,
    # and remembered across a re-transcription
    for mi, (method, ncl) in enumerate((('MS', 2), ('DC', 2), ('SS', 3))):
        add(kind='stage-values', method=method, nclones=ncl, N=2 + mi % 2)
    # per-interval / per-node parameters inside constraints placed at the COLLOCATION points and at the integrator points, several integrator steps per
    # control interval: every instance reads the column of its own control interval
    for N, M, g, (degree, scheme), hi in ((3, 2, fam.G_UNI, (2, 'radau'), 0), (2, 3, fam.G_GEO_LOC, (1, 'legendre'), 2), (3, 2, fam.G_UNI_LT, (3, 'radau'), 5)):
        sp = pmodel()
        sp.cons = list(sp.cons) + [Con('<=', X(0) * Pg('pc') + Pg('pp'), Pg('vec', 1) + 700, grid='integrator_roots'), Con('>=', X(1) + Pg('pc') * Pg('vec', 0), -600, grid='integrator')]
        sp.note = 'per-interval parameters at the collocation points'
        add(kind='nlp', spec=fam.with_horizon(fill_values(sp, N), H[hi]), cfg=Cfg('DC', N=N, M=M, intg='rk', grid=g, degree=degree, scheme=scheme))
    for method, M, intg in (('MS', 2, 'rk'), ('SS', 2, 'expl_euler')):
        sp = pmodel()
        sp.cons = list(sp.cons) + [Con('>=', X(1) + Pg('pc') * Pg('vec', 0), -600, grid='integrator')]
        add(kind='nlp', spec=fam.with_horizon(fill_values(sp, 3), H[0]), cfg=Cfg(method, N=3, M=M, intg=intg, grid=fam.G_GEO_LOC, degree=2, scheme='radau'))
    return items


def run_stage_values(item):
    """ground (tagged distinct values): the number the NLP carries for the parameter of stage i is the value last assigned on stage i"""
    from .c12 import build, stage_model
    method, ncl, N = item['method'], item['nclones'], item['N']
    cfg = Cfg(method, N=N, M=1, intg='rk', grid=fam.G_UNI, degree=2, scheme='radau')
    tplspec = stage_model(0)                     # has the global parameter 'a'
    stages = [dict(spec=tplspec, cfg=cfg, t0=('num', Fr(i)), T=('num', Fr(1)), clone_of='tpl', pvals={'a': Fr(5 + 2 * i, 4)}) for i in range(ncl)]
    stages.append(dict(spec=stage_model(0), cfg=cfg, t0=('num', Fr(ncl)), T=('num', Fr(1)), clone_of=None, pvals={'a': Fr(31, 8)}))
    want = [float(sd['pvals']['a']) for sd in stages]
    viol, proved = [], []
    with quiet():
        m = build(dict(stages=stages, coupling=[('cont', i, i + 1) for i in range(len(stages) - 1)], parent=[('w2',)]))
        m.ocp.solver('ipopt')
        m.ocp.set_initial(m.w2, 2 * m.pb)        # a guess on the PARENT that is an expression of the parent's parameter (value 2.25)
        bl_ = m.stage_builts[-1]
        bl_.stage.set_initial(bl_.us[0], m.pb * (bl_.stage.t + 1))      # a guess on a SUB-STAGE written in the parent's parameter and the stage's time
    try:
        with quiet():
            m.ocp._transcribed
            g_w2 = float(m.ocp.initial_value(m.ocp.value(m.w2)))
            g_x = [float(v_) for v_ in np.atleast_1d(m.stage_builts[-1].stage.initial_value(m.stage_builts[-1].stage.sample(m.stage_builts[-1].xel[0], grid='control')[1]))]
        if method == 'SS':
            g_x = g_x[:1]             # later nodes are propagated, not guessed
        if close(g_w2, 4.5) and all(close(v_, 2.0) for v_ in g_x):
            proved.append('parent guess written in its parameter starts at 2*value; starting values readable through a sub-stage')
        else:
            viol.append({'property': PROP, 'key': 'parent-guess|%s' % method, 'label': 'set_initial(w2, 2*pb)', 'detail': 'w2 starts at %r (expected 4.5), x0 of the last stage read through stage.initial_value: %s (expected 2.0)' % (g_w2, g_x)})
    except Exception as e_:
        viol.append({'property': PROP, 'key': 'parent-guess-raises|%s' % method, 'label': 'set_initial(w2, 2*pb)', 'detail': 'transcribing / reading the starting point raised: %s' % str(e_).strip().splitlines()[-1][:200]})
        return {'stats': {'unsat': 0, 'sat': 0, 'unknown': 0, 'queries': 0, 'solver_s': 0.0}, 'obligations': 1, 'discharged': 0, 'nontrivial': [], 'violations': viol, 'twins_ok': 0, 'twins_bad': 0, 'status': 'violation',
                'shape': 'stage-values|%s|%d clones' % (method, ncl), 'sample': {'kind': 'stage-values', 'method': method}}
    with quiet():
        pass

    def seen(tag):
        with quiet():
            m.ocp._transcribed
            op_ = m.ocp._method.opti
            got = [float(op_.debug.value(b.stage.value(b.psym['a']), op_.initial())) for b in m.stage_builts]
        for i, (g_, w_) in enumerate(zip(got, want)):
            if close(g_, w_):
                proved.append('%s: stage %d sees its own value' % (tag, i))
            else:
                viol.append({'property': PROP, 'key': 'stage-value|%s|%s' % (method, tag), 'label': 'stage %d' % i,
                             'detail': 'parameter of stage %d (%s) was last given the value %r, the NLP carries %r (values of all stages: wanted %s, got %s)' % (i, 'clone' if i < ncl else 'direct', w_, g_, want, got)})
    seen('values given before the transcription')
    with quiet():
        m.stage_builts[0].stage.set_value(m.stage_builts[0].psym['a'], 6.5)
    want[0] = 6.5
    seen('one clone updated after the transcription')
    # the PARENT's own parameter: value changed after the transcription, then a guess for the parent's variable (in that order)
    def parent_sees(tag, want_pb):
        with quiet():
            m.ocp._transcribed
            op_ = m.ocp._method.opti
            got = float(op_.debug.value(m.ocp.value(m.pb), op_.initial()))
        if close(got, want_pb):
            proved.append('%s: the parent sees its own parameter value' % tag)
        else:
            viol.append({'property': PROP, 'key': 'parent-value|%s|%s' % (method, tag), 'label': 'parent parameter',
                         'detail': 'the parent\'s parameter was last given the value %r, the NLP carries %r' % (want_pb, got)})
    def substage_guess(tag, want_pb):
        with quiet():
            m.ocp._transcribed
            st_ = m.stage_builts[-1].stage
            us_ = [float(v_) for v_ in np.atleast_1d(st_.initial_value(st_.sample(m.stage_builts[-1].us[0], grid='control-')[1]))]
            ts_ = [float(v_) for v_ in np.atleast_1d(st_.initial_value(st_.sample(st_.t, grid='control-')[1]))]
        if all(close(u_, want_pb * (t_ + 1)) for u_, t_ in zip(us_, ts_)):
            proved.append('%s: the sub-stage guess written in the parent parameter starts at value*(t+1)' % tag)
        else:
            viol.append({'property': PROP, 'key': 'substage-guess-of-parent-parameter|%s|%s' % (method, tag), 'label': 'stage.set_initial(u, pb*(t+1))',
                         'detail': 'with the parent parameter at %r the control of the last stage starts at %s at the times %s (expected %s)' % (want_pb, us_, ts_, [want_pb * (t_ + 1) for t_ in ts_])})
    substage_guess('value given before the transcription', 2.25)
    with quiet():
        m.ocp.set_value(m.pb, 3.5)
        g_w2b = float(m.ocp.initial_value(m.ocp.value(m.w2)))      # read BEFORE any further set_initial (which would re-apply every guess of the parent)
        m.ocp.set_initial(m.w, 0.25)
    parent_sees('set_value then set_initial on the parent, after the transcription', 3.5)
    substage_guess('parent value changed after the transcription', 3.5)
    # the PARENT's own guess written in its parameter (set_initial(w2, 2*pb), declared before the transcription) follows the new value as well
    if close(g_w2b, 7.0):
        proved.append('parent guess 2*pb follows set_value(pb, 3.5) given after the transcription')
    else:
        viol.append({'property': PROP, 'key': 'parent-guess-of-own-parameter|%s' % method, 'label': 'set_initial(w2, 2*pb); transcribe; set_value(pb, 3.5)',
                     'detail': 'w2 starts at %r; a fresh OCP with pb = 3.5 starts it at 7.0' % g_w2b})
    seen('clones untouched by the parent update')
    with quiet():
        m.ocp.subject_to(m.w <= 50)          # an edit: the next query transcribes again
    seen('after a re-transcription')
    res = {'stats': {'unsat': 0, 'sat': 0, 'unknown': 0, 'queries': 0, 'solver_s': 0.0}, 'obligations': len(proved) + len(viol), 'discharged': len(proved), 'nontrivial': proved,
           'violations': viol, 'twins_ok': 0, 'twins_bad': 0, 'shape': 'stage-values|%s|%d clones' % (method, ncl), 'sample': {'kind': 'stage-values', 'method': method, 'clones': ncl, 'values': want}}
    if viol:
        res['status'] = 'violation'
    return res


def flat_value(p, cfg):
    """declared value -> dict (k or None, elem) -> number"""
    v = p.value
    out = {}
    if isinstance(v, (int, Fr)):
        for e in range(p.n):
            out[(None, e)] = Fr(v)
        return out
    if p.grid == '':
        for c in range(p.cols):
            for r in range(p.rows):
                out[(None, c * p.rows + r)] = Fr(v[r][c])
        return out
    ncol = len(v[0]) // p.cols       # one block of p.cols columns per interval / node
    for k in range(ncol):
        for c in range(p.cols):
            for r in range(p.rows):
                out[(k, c * p.rows + r)] = Fr(v[r][k * p.cols + c])
    return out


def routing_violations(inst, spec, cfg, values=None):
    """numeric parameter vector read through the named quantities vs declared values"""
    out = []
    x0 = list(inst.nlp.x0())
    pv = list(inst.nlp.pval())
    o = inst.prog.run(inst.fdom, inst.nlp.split(x0, inst.nlp.xsyms) + inst.nlp.split(pv, inst.nlp.psyms))
    nn = len(inst.named.items)
    tr = inst.named.traj(o[4:4 + nn], inst.fdom)
    for p in spec.params:
        want = (values or {}).get(p.name) or flat_value(p, cfg)
        for (k, e), val in want.items():
            got = tr.P[p.name][e] if k is None else tr.Pc[p.name][k][e]
            if not close(float(got), float(val)):
                out.append(('routing', '%s[k=%s,e=%d]' % (p.name, k, e), 'parameter %s column %s element %d: solver sees %r, declared %r' % (p.name, k, e, float(got), float(val))))
    return out


def run_order(item):
    """set_value call orders relative to transcription"""
    from ..extract import declare, NLP
    spec, cfg, order = item['spec'], item['cfg'], item['order']
    N = cfg.N
    inst0 = None
    newvals = {
        'a2': ('a', Fr(5, 2)), 'a3': ('a', Fr(7, 2)),
        'pc2': ('pc', [[Fr(100 + k) for k in range(N)]]), 'pp2': ('pp', [[Fr(200 + k) for k in range(N + 1)]]),
        'vec2': ('vec', [[Fr(300 + k) for k in range(N)], [Fr(400 + k) for k in range(N)]]),
    }
    newvals['pT2'] = ('pT', Fr(5, 2))
    newvals['mc2'] = ('mc', [[Fr(500 + 10 * r_ + k) for k in range(2 * N)] for r_ in range(2)])
    # ONE set_value call on horzcat(matrix parameter m (2x2), vector parameter g2 (2x1)): the value is split over the symbols in column-major order
    newvals['mg2'] = ('m+g2', ([[Fr(61), Fr(63)], [Fr(62), Fr(64)]], [[Fr(71)], [Fr(72)]]))
    for p_ in spec.params:          # '<name>0' = set the parameter back to its originally declared value
        newvals[p_.name + '0'] = (p_.name, copy.deepcopy(p_.value))
    s_cur = copy.deepcopy(spec)
    b = declare(s_cur, cfg)
    b.ocp.solver('ipopt')
    viol = []
    checked = 0
    inst = None
    for op in order:
        if op in ('T', 'T2'):
            inst = Inst(s_cur, cfg, seed=item.get('seed', 0), built=b, solver=False)   # transcribes (or re-uses the transcription; declaring the solver again would invalidate it)
        elif op == 'mg2':
            (vm, vg) = newvals[op][1]
            [p for p in s_cur.params if p.name == 'm'][0].value = vm
            [p for p in s_cur.params if p.name == 'g2'][0].value = vg
            with quiet():
                b.stage.set_value(ca.horzcat(b.psym['m'], b.psym['g2']), ca.DM(np.array([[float(vm[r_][0]), float(vm[r_][1]), float(vg[r_][0])] for r_ in range(2)])))
        else:
            name, val = newvals[op]
            sym = [p for p in s_cur.params if p.name == name][0]
            sym.value = val
            with quiet():
                b.stage.set_value(b.psym[name], param_value(sym, cfg))
    if inst is None or order[-1] not in ('T', 'T2'):
        inst = Inst(s_cur, cfg, seed=item.get('seed', 0), built=b, solver=False)
    rv = routing_violations(inst, s_cur, cfg)
    x0_after = list(inst.nlp.x0())
    fresh = Inst(s_cur, cfg, seed=item.get('seed', 0))
    pf = list(fresh.nlp.pval())
    pe = list(inst.nlp.pval())
    res_viol = []
    for key, label, detail in rv:
        res_viol.append(describe_violation(inst, PROP, '%s|order|%s' % (key, cfg.method), label, detail + ' after calls %s' % order))
    if len(pf) != len(pe) or not all(close(float(a), float(c)) for a, c in zip(pf, pe)):
        res_viol.append(describe_violation(inst, PROP, 'order-p-differs|%s' % cfg.method, 'opti.p', 'parameter vector after calls %s differs from a fresh OCP with the final values: %s vs %s' % (order, pe, pf)))
    if not all(close(float(a), float(c)) for a, c in zip(x0_after, fresh.nlp.x0())):
        res_viol.append(describe_violation(inst, PROP, 'order-x0-differs|%s' % cfg.method, 'x0', 'starting point changed by set_value calls %s' % order))
    ch = Checker(inst)
    diffs, npairs = compare_nlps(ch, inst, Inst(s_cur, cfg, seed=item.get('seed', 0), like=inst, bind=bind_positional()), 'evolved', 'fresh')
    for key, label, detail in diffs:
        res_viol.append(describe_violation(inst, PROP, '%s|order|%s' % (key, cfg.method), label, detail))
    r = result(inst, ch, {'violations': res_viol, 'shape': 'order %s %s' % (order, cfg.method),
                          'sample': {'kind': 'call order', 'order': order, 'cfg': cfg.tag(), 'p_final': [float(x) for x in pe][:12]}})
    r['obligations'] += 2
    r['discharged'] += 2 - min(2, len([v for v in res_viol if 'order-' in v['key']]))
    if res_viol:
        r['status'] = 'violation'
    return r


def run(item):
    if item['kind'] == 'order':
        return run_order(item)
    if item['kind'] == 'stage-values':
        return run_stage_values(item)
    spec, cfg = item['spec'], item['cfg']
    inst = Inst(spec, cfg, seed=item.get('seed', 0))
    ch = Checker(inst)
    z3 = inst.z3
    viol = []

    def V(key, label, detail, pt=None):
        viol.append(describe_violation(inst, PROP, '%s|%s' % (key, cfg.method), label, detail, pt))
    # (i) parametric NLP vs reference with symbolic parameter entries
    def ref_atoms(tr):
        r = Ref(tr)
        at = []
        if cfg.method == 'MS':
            at += rsh.gap_atoms(tr)
        elif cfg.method == 'DC':
            at += rco.dyn_atoms(tr)
        return at + r.constraint_atoms() + r.horizon_atoms()
    refa = multi(inst, ref_atoms)
    impa = impl_atoms(inst)
    pairs, un_ref, un_impl = ch.match(refa, impa)
    for j in un_ref:
        V('row-mismatch', refa['z'][j][2], 'no NLP row equals the reference row with symbolic parameter entries', inst.pts[0])
    mv = model_vars(inst, ch)
    for i in un_impl:
        if ch._vars(impa['z'][i][1]) & mv:
            V('extra-row', 'row %d' % impa['z'][i][2], 'NLP row matches no reference row', inst.pts[0])
    doms = inst.domains()
    fr = multi(inst, lambda tr: Ref(tr).objective())
    if not ch.prove('opti.f == reference objective (symbolic p)', {d: inst.view(d)[0] for d in doms}, fr) and ch.violations:
        v = ch.violations.pop()
        V('objective', 'f', 'objective with symbolic parameters differs: %s' % {k: v.get(k) for k in ('how', 'impl', 'ref')})
    # every named parameter entry is a plain parameter symbol of the NLP and entries are pairwise distinct
    trz = inst.traj('z')
    seen = {}
    for p in spec.params:
        cols = [trz.P[p.name]] if p.grid == '' else trz.Pc[p.name]
        for k, col in enumerate(cols):
            for e, term in enumerate(col):
                q = z3.simplify(emb(term))
                lab = '%s[k=%d,e=%d]' % (p.name, k, e)
                if not (z3.is_const(q) and q.decl().kind() == z3.Z3_OP_UNINTERPRETED and str(q).startswith('p')):
                    V('param-not-symbol', lab, 'named parameter entry is not a parameter symbol of the NLP: %s' % q)
                elif str(q) in seen:
                    V('param-aliased', lab, 'parameter entries %s and %s share one NLP parameter' % (seen[str(q)], lab))
                else:
                    seen[str(q)] = lab
                    ch.proved.append('symbol:' + lab)
    # (ii) routing with tagged values (ground)
    for key, label, detail in routing_violations(inst, spec, cfg):
        V(key, label, detail)
    ch.proved.append('routing(tagged values)')
    # (iii) relational: parameter values bound vs written in
    globs = [p.name for p in spec.params if p.grid == '']
    pvals = list(inst.nlp.pval())

    def bindA(nlp, like):
        out = {}
        gl_idx = set()
        for p in spec.params:
            if p.grid == '':
                for term in trz.P[p.name]:
                    q = z3.simplify(emb(term))
                    gl_idx |= {i for i, v in enumerate(like.pv) if z3.eq(v, q)}
        for d in like.domains():
            if d == 'z':
                xs, ps = list(like.xv), list(like.pv)
                for i in gl_idx:
                    ps[i] = z3.RealVal(str(Fr(pvals[i]).limit_denominator(10 ** 6)))
            else:
                xs, ps = list(like.pts[d][0]), list(like.pts[d][1])
                for i in gl_idx:
                    ps[i] = float(pvals[i])
            out[d] = (xs, ps)
        bindA.gl_idx = gl_idx
        return out
    A = Inst(spec, cfg, seed=item.get('seed', 0), like=inst, bind=bindA, built=inst.b)
    sB = inline(spec, globs)

    def bindB(nlp, like):
        keep = [i for i in range(len(like.pv)) if i not in bindA.gl_idx]
        out = {}
        for d in like.domains():
            if d == 'z':
                out[d] = (list(like.xv), [like.pv[i] for i in keep])
            else:
                out[d] = (list(like.pts[d][0]), [like.pts[d][1][i] for i in keep])
        return out
    B = Inst(sB, cfg, seed=item.get('seed', 0), like=inst, bind=bindB)
    diffs, npairs = compare_nlps(ch, A, B, 'parametric(p:=v)', 'inlined')
    for key, label, detail in diffs:
        V(key, label, detail, inst.pts[0])
    xa, xb = list(inst.nlp.x0()), list(B.nlp.x0())
    if len(xa) != len(xb) or not all(close(float(a), float(b)) for a, b in zip(xa, xb)):
        V('x0-differs', 'x0', 'starting points of the parametric and the inlined problem differ')
    twins_ok = twins_bad = 0
    if item.get('twin', True):
        sW = copy.deepcopy(spec)
        [p for p in sW.params if p.name == 'a'][0].value = Fr(7, 2)      # other value written in
        W = Inst(inline(sW, globs), cfg, seed=item.get('seed', 0), like=inst, bind=bindB)
        ch2 = Checker(inst, timeout_ms=5000)
        dW, _ = compare_nlps(ch2, A, W, 'parametric', 'wrong-value')
        if dW:
            twins_ok += 1
        else:
            twins_bad += 1
    r = result(inst, ch, {'violations': viol, 'twins_ok': twins_ok, 'twins_bad': twins_bad,
                          'shape': '%s|%s' % (cfg.tag(), spec.t0[0] + '/' + spec.T[0]),
                          'sample': {'cfg': cfg.tag(), 'horizon': [spec.t0[0], spec.T[0]], 'params': [(p.name, p.grid, p.rows, p.cols) for p in spec.params],
                                     'rows': inst.nlp.ng, 'np': inst.nlp.np, 'relational_pairs': npairs}})
    if viol:
        r['status'] = 'violation'
    return r
