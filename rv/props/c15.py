"""C15 grid='inf' constraints guarantee satisfaction between grid points."""
import copy
import random
from fractions import Fraction as Fr

import casadi as ca

from .. import families as fam
from ..dsl import (Cfg, Spec, Sym, Con, E, X, U, Pg, t, T, t0, nl1, C, at_t0, at_tf, inf_der, der)
from ..extract import quiet
from ..instance import Inst
from ..match import Checker, close
from ..sx2smt import emb, RockitRaised, HarnessError
from .common import describe_violation, result, impl_atoms

PROP = 'C15'
LEVEL = 'other'
REFINE = 8
META = {
    'rule': "instance = (linear chain model whose step polynomial is exact for the scheme, constraint with grid='inf' (degree 1 body over the states), method, N, M, grid, horizon kind).  Hypotheses = EVERY row of the real NLP "
            "(dynamics, inf certificate rows, grid rows, T>=0) and positive interval lengths; conclusion = the refined sample (refine=%d, the scheme's own polynomial, C08) of the constrained expression satisfies the bound at "
            "every refined point of every integration interval.  z3 decides hypotheses & not(conclusion): unsat = sufficient for all decision vectors; sat = a decision vector feasible for the NLP whose trajectory violates the "
            "bound between grid points, replayed numerically on the real NLP functions and the real refined sample.  Rejection: a non-polynomial body must raise.  distinct by (shape,label)" % REFINE,
    'functions': ['rockit/sampling_method.py:add_inf_constraints', 'rockit/casadi_helpers.py:reinterpret_expr', 'rockit/splines/spline.py:BSplineBasis/BSpline algebra and comparisons',
                  'rockit/multiple_shooting.py, single_shooting.py, direct_collocation.py: call sites', 'rockit/stage.py:_grid_intg_fine (the polynomial being certified)'],
    'bounds': 'bodies: x_i <= ub, a*x_i + b*x_j >= lb, lb <= inf_der(x_i) <= ub (degree 1; also the same bound on two states), a constant 5-vector of bounds on a scalar state (rejected or sufficient for every entry); models x\'=u and double integrator (rk exact, collocation degree 4 exact); MS, SS (rk), DC degree 4 radau; N<=3, M<=2 (DC: M=1, numeric T, N=3 with the one-state model only); uniform, local geometric, user and FreeGrid; numeric and free T',
    'outside': 'inf_der under DirectCollocation (rounded power-basis tables: exact only up to 1e-15); degree-2 bodies and inf_inert (the direct query is quadratic in the decision vector and nlsat does not finish; the Bernstein hull argument for them is not re-proved here); tightness as M grows; '
               'violations confined to times strictly between refined points',
    'assumptions': ['the refined sample is the scheme polynomial (C08)', 'reals for floats'],
    'explanation': 'bounded symbolic checking of a universally quantified implication over the real NLP rows (QF_LRA/QF_NRA), counterexamples replayed on the real code',
}


def models():
    out = []
    s = Spec(nx=1, nu=1, ode=[U(0)], note="x'=u")
    s.cons = [Con('<=', X(0), 1, grid='inf'), Con('==', at_t0(X(0)), 0), Con('<=<=', -50, 50, mid=U(0))]
    out.append(s)
    s = Spec(nx=2, nu=1, ode=[X(1), U(0)], note='double integrator')
    s.cons = [Con('<=', X(0), 1, grid='inf'), Con('>=', X(0) * 2 + X(1), -3, grid='inf'), Con('==', at_t0(X(0)), 0)]
    out.append(s)
    # reflected operations: constant / parameter on the left of the state polynomial (c - p(x), c * p(x), -p(x))
    s = Spec(nx=2, nu=1, ode=[X(1), U(0)], params=[Sym('a', value=2)], note='double integrator, reflected operands')
    s.cons = [Con('<=', 1 - X(0), Fr(3, 2), grid='inf'), Con('>=', 3 - (X(0) * 2 + X(1)), -1, grid='inf'), Con('<=', Pg('a') - X(1), 4, grid='inf'),
              Con('<=', -X(0) + 2 * X(1), 5, grid='inf'), Con('==', at_t0(X(0)), 0)]
    out.append(s)
    # rate bound through inf_der: the derivative of the state polynomial is certified
    s = Spec(nx=2, nu=1, ode=[X(1), U(0)], note='double integrator, inf_der rate bound')
    s.cons = [Con('<=<=', Fr(-3, 10), Fr(3, 10), mid=inf_der(X(0)), grid='inf'), Con('==', at_t0(X(0)), 0)]
    out.append(s)
    # include_first=False has no meaning for a certificate over whole steps: the first step stays certified
    s = Spec(nx=2, nu=1, ode=[X(1), U(0)], note='double integrator, include_first=False')
    s.cons = [Con('<=', X(0), 1, grid='inf', include_first=False), Con('>=', X(0) * 2 + X(1), -3, grid='inf', include_first=False, include_last=False), Con('==', at_t0(X(0)), 0)]
    out.append(s)
    # explicit time in the body (time runs linearly over each step: the certificate must carry it as a polynomial, not freeze it)
    s = Spec(nx=2, nu=1, ode=[X(1), U(0)], note='double integrator, explicit time in the body')
    s.cons = [Con('<=', X(1) + t * Fr(3, 10), Fr(6, 10), grid='inf'), Con('>=', X(0) - t, -3, grid='inf'), Con('==', at_t0(X(0)), 0)]
    out.append(s)
    # a vector-valued state declared BEFORE the constrained scalar state (the certificate must be built from the constrained state's own polynomial)
    s = Spec(nx=3, nu=1, ode=[U(0), -U(0) * 2, X(0)], xshape=[(2, 1), (1, 1)], note='vector state first, constrained scalar state after it')
    s.cons = [Con('<=', X(2), 1, grid='inf'), Con('==', at_t0(X(2)), 0), Con('<=<=', -50, 50, mid=U(0))]
    out.append(s)
    return out


def instances(tier, seed):
    rng = random.Random(seed + 15)
    items = []

    def add(**kw):
        items.append(dict(id='%s#%d' % (PROP, len(items)), **kw))
    grids = [fam.G_UNI, fam.G_GEO_LOC, ('geometric', {'growth_factor': 3, 'local': True}), fam.G_FREE, fam.G_FUN(3)]
    hz = [(('num', Fr(0)), ('num', Fr(1))), (('num', Fr(1, 2)), ('num', Fr(2))), (('num', Fr(0)), ('free', Fr(2)))]
    n = 0
    for method, intg in (('MS', 'rk'), ('SS', 'rk'), ('DC', None)):
        for mi, s in enumerate(models()):
            if method == 'DC' and 'inf_der' in s.note:
                continue    # derivative of the rounded collocation power basis vs the state polynomial agree only up to 1e-15: not an exact identity
            if method == 'DC' and 'reflected' in s.note:
                s = copy.deepcopy(s)
                s.cons = s.cons[:3] + s.cons[4:]      # four certificates on the degree-4 collocation rows exceed z3's budget for N = 3
            for g in grids:
                Ns = [2, 3] if tier == 'quick' else [1, 2, 3]
                for N in Ns[: (1 if tier == 'quick' else 3)] if g[0] != 'function' else ([2] if method == 'DC' else [3]):
                    M = [1, 2][n % 2]
                    h = hz[n % len(hz)]
                    if method == 'DC' and N == 3 and mi > 0:
                        continue               # two-state collocation rows over three intervals take z3 50-100 s per query (unknown under the 60 s cap on a loaded machine): N=3 is explored with the one-state model only
                    if method == 'DC':
                        M = 1                  # with sub-stepping the (linear, 53-bit rational) collocation system exceeds z3's 60 s
                        h = hz[n % 2]          # numeric horizon: every row is linear in the decision vector (with free T z3 does not finish on the collocation rows)
                    if g[0] == 'function':
                        g = fam.G_FUN(N)
                    add(kind='sufficiency', spec=fam.with_horizon(s, h), cfg=Cfg(method, N=N, M=M, intg=intg or 'rk', grid=g, degree=4, scheme='radau'))
                    n += 1
    # step polynomials of degree < 4 (expl_euler; collocation of degree 1..3): accepted outcome = rejection, or a sufficient certificate
    s = models()[0]
    for method, intg, degree in (('MS', 'expl_euler', 4), ('SS', 'expl_euler', 4), ('DC', None, 1), ('DC', None, 2), ('DC', None, 3)):
        for g in (fam.G_UNI, fam.G_GEO_LOC):
            add(kind='sufficiency', spec=fam.with_horizon(s, hz[0]), cfg=Cfg(method, N=2, M=2 if method != 'DC' else 1, intg=intg or 'rk', grid=g, degree=degree, scheme='radau'), reject_ok=True)
    # a product of a VECTOR-valued state (every component must be certified, or the constraint rejected): x1(t) = t reaches 2 > 1 although x0 may stay small
    sv = Spec(nx=2, nu=1, ode=[U(0), C(1)], xshape=[(2, 1)], note='square of a vector-valued state')
    sv.cons = [Con('<=', E('xg', 0) * E('xg', 0), 1, grid='inf'), Con('==', at_t0(X(0)), 0), Con('==', at_t0(X(1)), 0)]
    for method, intg in (('MS', 'rk'), ('DC', None)):
        add(kind='sufficiency', spec=fam.with_horizon(sv, hz[1]), cfg=Cfg(method, N=2, M=1, intg=intg or 'rk', grid=fam.G_UNI, degree=4, scheme='radau'), reject_ok=True, twin=False)
    # quantities that are NOT available as step polynomials (quadrature states, algebraic variables): rejected, or certified
    from ..dsl import Q, Z
    sq = Spec(nx=2, nu=1, ode=[X(1), U(0)], note='inf constraint on a quadrature state')
    sq.quads = [X(0)]
    sq.cons = [Con('<=', Q(0), Fr(3, 10), grid='inf'), Con('==', at_t0(X(0)), Fr(1, 10))]
    add(kind='sufficiency', spec=fam.with_horizon(sq, hz[1]), cfg=Cfg('MS', N=2, M=1, intg='rk', grid=fam.G_UNI, degree=4, scheme='radau'), reject_ok=True, twin=False)
    sz = Spec(nx=1, nu=1, nz=1, ode=[U(0) + Z(0)], alg=[Z(0) - X(0) * 2], note='inf constraint on an algebraic variable')
    sz.cons = [Con('<=', Z(0), Fr(3, 10), grid='inf'), Con('==', at_t0(X(0)), Fr(1, 10))]
    add(kind='sufficiency', spec=fam.with_horizon(sz, hz[0]), cfg=Cfg('DC', N=2, M=1, grid=fam.G_UNI, degree=4, scheme='radau'), reject_ok=True, twin=False)
    # several grid='inf' constraints whose bodies PRINT alike (every inf_der symbol is called "der"): each needs its own certificate
    s2 = Spec(nx=2, nu=1, ode=[X(1), U(0)], note='double integrator, the same inf_der rate bound on both states')
    s2.cons = [Con('<=<=', Fr(-3, 10), Fr(3, 10), mid=inf_der(X(0)), grid='inf'), Con('<=<=', Fr(-3, 10), Fr(3, 10), mid=inf_der(X(1)), grid='inf'), Con('==', at_t0(X(0)), 0)]
    for method, g_, M_ in (('MS', fam.G_UNI, 2), ('SS', fam.G_GEO_LOC, 1), ('MS', fam.G_GEO_LOC, 1)):
        add(kind='sufficiency', spec=fam.with_horizon(s2, hz[1]), cfg=Cfg(method, N=2, M=M_, intg='rk', grid=g_, degree=4, scheme='radau'))
    # a VECTOR of bounds on a scalar state (five of them: as many as there are Bernstein coefficients of a degree-4 step): every bound holds everywhere, or rejected
    sb = Spec(nx=1, nu=1, ode=[U(0)], note="x'=u, five bounds on the scalar state in one constraint")
    sb.cons = [Con('<=', X(0), E('cvec', (Fr(1, 5), Fr(5), Fr(4), Fr(3), Fr(2))), grid='inf'), Con('==', at_t0(X(0)), 0), Con('<=<=', -50, 50, mid=U(0))]
    for method, intg in (('MS', 'rk'), ('DC', None)):
        add(kind='sufficiency', spec=fam.with_horizon(sb, hz[1]), cfg=Cfg(method, N=2, M=1, intg=intg or 'rk', grid=fam.G_UNI, degree=4, scheme='radau'), reject_ok=True, twin=False)
    # a grid='inf' body that depends on a B-spline signal: rejected, or sufficient
    for method in ('MS', 'DC'):
        add(kind='signal-inf', method=method)
    # rejection of bodies without a certificate
    for method in ('MS', 'DC'):
        s = Spec(nx=1, nu=1, ode=[U(0)], note='non-polynomial inf body')
        s.cons = [Con('<=', nl1(X(0)), 1, grid='inf')]
        add(kind='reject', spec=s, cfg=Cfg(method, N=2, M=1, intg='rk', degree=4, scheme='radau'))
    return items


def run_signal_inf(item):
    """a grid='inf' constraint that depends on a B-spline signal (which moves inside the interval but is no step polynomial): rejected, or
    sufficient -- every NLP row satisfied implies the body <= 0 on the refined integrator grid (z3 over states, controls; counterexample replayed)"""
    import z3
    import numpy as np
    from ..extract import Ocp, MultipleShooting, DirectCollocation, quiet
    from .c17 import Ctx, _trace
    method = item['method']
    ctx = Ctx()
    shape = 'signal-inf %s' % method
    try:
        with quiet():
            ocp = Ocp(t0=0, T=2)
            x = ocp.state()
            u = ocp.control()
            sg = ocp.parameter(grid='bspline', order=2)
            ocp.set_value(sg, ca.DM([[1, 1, -1, 1]]))
            ocp.set_der(x, u)
            ocp.subject_to(-1 <= (u <= 1))
            ocp.subject_to(x - sg <= 0, grid='inf')
            ocp.subject_to(ocp.at_t0(x) == -1)
            ocp.add_objective(-ocp.integral(x))
            ocp.method(MultipleShooting(N=2, M=1, intg='rk') if method == 'MS' else DirectCollocation(N=2, M=1, degree=4))
            ocp.solver('ipopt')
            body = ocp.sample(x - sg, grid='integrator', refine=8)[1]
            opti = ocp._method.opti
            prog, zin, out = _trace(ocp, [opti.g, body], ctx)
            lbv = np.array(opti.debug.value(opti.lbg, opti.initial())).flatten()
            ubv = np.array(opti.debug.value(opti.ubg, opti.initial())).flatten()
            pvals = {str(s_): np.array(opti.debug.value(s_, opti.initial())).flatten() for s_ in opti.advanced.symvar() if opti.advanced.is_parametric(s_)}
    except Exception as e:
        if 'spline' in str(e).lower():
            ctx.proved.append('rejected: %s' % str(e).strip().splitlines()[-1][:120])
            return ctx.result(shape, {'kind': 'signal-inf', 'rejected': True})
        ctx.viol.append({'property': PROP, 'key': 'raises|signal-inf|%s' % method, 'label': 'x - s <= 0, grid=inf', 'detail': 'raised: %s' % str(e).strip().splitlines()[-1][:200]})
        return ctx.result(shape, {'kind': 'signal-inf', 'raised': True})
    gz, bz = out[0], out[1]
    syms = [s_ for s_ in opti.advanced.symvar()]
    # parameters carry their given values
    for s_, grp in zip(syms, zin):
        if str(s_) in pvals:
            for v_, val in zip(grp, pvals[str(s_)]):
                ctx.s.add(v_ == z3.RealVal(repr(float(val))))
    for i, g_ in enumerate(gz):
        if np.isfinite(lbv[i]):
            ctx.s.add(g_ >= z3.RealVal(repr(float(lbv[i]))))
        if np.isfinite(ubv[i]):
            ctx.s.add(g_ <= z3.RealVal(repr(float(ubv[i]))))
    ctx.s.set('timeout', 60000)
    ctx.s.push()
    ctx.s.add(z3.Or(*[b_ > z3.RealVal('1/1000') for b_ in bz]))
    r = str(ctx.s.check())
    mdl = ctx.s.model() if r == 'sat' else None
    ctx.s.pop()
    ctx.stats[r] += 1
    ctx.stats['queries'] += 1
    if r == 'unsat':
        ctx.proved.append('all NLP rows imply x - s <= 0 on the refined grid')
    elif r == 'sat':
        def fv(v_):
            q = mdl.eval(v_, model_completion=True)
            return float(q.numerator_as_long()) / float(q.denominator_as_long()) if z3.is_rational_value(q) else float(q.approx(20).as_fraction())
        pt = [[fv(v_) for v_ in grp] for grp in zin]
        fo = prog.run(ctx.fdom, pt)
        feas = all((not np.isfinite(lbv[i]) or fo[0][i] >= lbv[i] - 1e-7) and (not np.isfinite(ubv[i]) or fo[0][i] <= ubv[i] + 1e-7) for i in range(len(lbv)))
        worst = max(float(v_) for v_ in fo[1])
        if feas and worst > 1e-4:
            ctx.viol.append({'property': PROP, 'key': 'insufficient|signal-inf|%s' % method, 'label': 'x - s <= 0, grid=inf, s a bspline parameter',
                             'detail': 'decision vector satisfies every NLP row but x - s reaches %+.4g on the refined integrator grid (replayed on the real NLP functions): the signal was frozen inside the certificate' % worst})
        else:
            raise HarnessError('signal-inf counterexample did not replay (feasible=%s, worst=%r)' % (feas, worst))
    else:
        ctx.incon.append({'label': 'signal-inf', 'why': 'solver ' + r})
    return ctx.result(shape, {'kind': 'signal-inf', 'method': method})


def run(item):
    if item.get('kind') == 'signal-inf':
        return run_signal_inf(item)
    spec, cfg = item['spec'], item['cfg']
    N, M = cfg.N, cfg.M
    if item['kind'] == 'reject':
        try:
            I = Inst(spec, cfg, seed=item.get('seed', 0))
        except RockitRaised as e:
            return {'stats': {}, 'obligations': 1, 'discharged': 1, 'nontrivial': ['rejected'], 'shape': 'reject %s' % cfg.method,
                    'sample': {'kind': 'reject', 'raised': str(e)[:200]}}
        return {'stats': {}, 'obligations': 1, 'discharged': 0, 'status': 'violation', 'shape': 'reject %s' % cfg.method,
                'violations': [{'property': PROP, 'key': 'non-polynomial-accepted|%s' % cfg.method, 'label': 'erf(x)<=1 grid=inf',
                                'detail': "a grid='inf' constraint on a non-polynomial expression was transcribed (%d rows) although no Bernstein certificate exists" % I.nlp.ng}]}
    infc = [c for c in spec.cons if c.grid == 'inf']

    def extra(b):
        outs = []
        def plain(e):
            # the quantity an inf_der term certifies is the time derivative of the step polynomial: for these exact
            # polynomial models that is der(e) sampled on the refined grid
            if isinstance(e, E) and e.op == 'inf_der':
                return E('der', e.a[0])
            if isinstance(e, E) and e.op not in ('c', 'x', 'u', 'p', 'v', 't', 'T', 't0'):
                return E(e.op, *[plain(a) if isinstance(a, E) else a for a in e.a])
            return e
        for c in infc:
            if c.op == '<=<=':
                outs.append(b.stage.sample(b.mx(plain(c.mid)) - b.mx(c.rhs), grid='integrator', refine=REFINE)[1])
                outs.append(b.stage.sample(b.mx(c.lhs) - b.mx(plain(c.mid)), grid='integrator', refine=REFINE)[1])
            else:
                body = b.mx(plain(c.lhs)) - b.mx(plain(c.rhs))
                outs.append(b.stage.sample(body, grid='integrator', refine=REFINE)[1])
        return outs
    try:
        I = Inst(spec, cfg, seed=item.get('seed', 0), extra_outputs=extra)
    except RockitRaised as e:
        if item.get('reject_ok'):
            # step polynomials of a degree rockit has no Bernstein conversion for: "problems for which no such guarantee can be produced are rejected"
            return {'stats': {}, 'obligations': 1, 'discharged': 1, 'nontrivial': ['rejected'], 'rejected': str(e)[:200], 'shape': 'reject-or-sufficient %s' % cfg.tag(),
                    'sample': {'kind': 'reject-or-sufficient', 'cfg': cfg.tag(), 'raised': str(e)[:200]}}
        raise
    z3 = I.z3
    trz = I.traj('z')
    atoms = I.atoms('z')
    hyps = [(t_ == 0) if k == 'eq' else (t_ <= 0) for k, t_, r in atoms]
    hyps += [emb(trz.tc[k + 1]) - emb(trz.tc[k]) > 0 for k in range(N)]
    ch = Checker(I, hyps=hyps, timeout_ms=60000, budget_s=300)
    viol = []
    if not ch.check_hyps():
        return {'status': 'inconclusive', 'inconclusive': [{'label': 'hypotheses', 'why': 'NLP rows unsatisfiable: vacuous'}], 'stats': ch.stats}
    ex = I.view('z')[5]
    import time
    concl = []
    for ci, c in enumerate(infc):
        if c.op == '<=<=':
            concl.append((c, 1, 'inf[%d] %r <= %r' % (ci, c.mid, c.rhs)))
            concl.append((c, 1, 'inf[%d] %r <= %r' % (ci, c.lhs, c.mid)))
        else:
            concl.append((c, 1 if c.op == '<=' else -1, 'inf[%d] %r %s %r' % (ci, c.lhs, c.op, c.rhs)))
    for ci, (c, sense, lab) in enumerate(concl):
        vals = ex[ci]
        t_ = time.time()
        ch.s.push()
        ch.s.add(z3.Or(*[(v > 0) if sense == 1 else (v < 0) for v in vals]))
        r = str(ch.s.check())
        m = ch.s.model() if r == 'sat' else None
        ch.s.pop()
        ch.stats[r] = ch.stats.get(r, 0) + 1
        ch.stats['queries'] += 1
        ch.stats['solver_s'] += time.time() - t_
        if r == 'unsat':
            ch.proved.append(lab)
            ch.nontrivial.add(lab)
        elif r == 'sat':
            pt = ch.model_point(m)
            # replay on the real code: NLP rows feasible, refined sample violates
            f, g, lb, ub = I.nlp.numeric(pt[0], pt[1])
            feas = all(lb[i] - 1e-7 <= g[i] <= ub[i] + 1e-7 for i in range(len(g)))
            F = ca.Function('s', I.nlp.xsyms + I.nlp.psyms, [ca.MX(I.prog.outputs[4 + len(I.named.items) + ci])])
            args = [ca.DM(v).reshape(s_.shape) for v, s_ in zip(I.nlp.split(pt[0], I.nlp.xsyms) + I.nlp.split(pt[1], I.nlp.psyms), I.nlp.xsyms + I.nlp.psyms)]
            sv = [float(x) for x in ca.vec(F.call(args)[0]).full().flatten()]
            worst = max(sv) if sense == 1 else -min(sv)
            if feas and worst > 1e-6:
                j = sv.index(max(sv) if sense == 1 else min(sv))
                v = describe_violation(I, PROP, 'insufficient|%s|%s' % (cfg.method, cfg.grid[0] + ('+free-T' if spec.T[0] == 'free' else '')), lab,
                                       "decision vector satisfies every NLP row (max row violation < 1e-7) but the refined trajectory violates the bound by %.4g at refined point %d (integration step %d of %d)" % (worst, j, j // REFINE, N * M), pt)
                viol.append(v)
            else:
                ch.inconclusive.append({'label': lab, 'why': 'solver model did not reproduce on the real code (feasible=%s, worst=%.3g)' % (feas, worst)})
        else:
            ch.inconclusive.append({'label': lab, 'why': 'solver ' + r})
    # twin: with only the equality rows (dynamics) as hypotheses the bound can be violated: the inequality rows matter
    twins_ok = twins_bad = 0
    if item.get('twin', True) and infc:
        s2 = z3.Solver()
        s2.set('timeout', 10000)
        s2.add(*[(t_ == 0) for k, t_, r in atoms if k == 'eq'])
        s2.add(*[emb(trz.tc[k + 1]) - emb(trz.tc[k]) > 0 for k in range(N)])
        c0 = infc[0]
        s2.add(z3.Or(*[(v > 0) if c0.op == '<=' else (v < 0) for v in ex[0]]))
        if str(s2.check()) == 'sat':
            twins_ok += 1
        else:
            twins_bad += 1
    r_ = result(I, ch, {'violations': viol, 'twins_ok': twins_ok, 'twins_bad': twins_bad, 'shape': '%s|%s|%s' % (cfg.tag(), spec.T[0], spec.note),
                        'sample': {'cfg': cfg.tag(), 'model': spec.note, 'T': spec.T[0], 'rows': I.nlp.ng, 'refined_points': len(ex[0]), 'constraints': [(repr(c.lhs), c.op, repr(c.rhs)) for c in infc]}})
    if viol:
        r_['status'] = 'violation'
    return r_
