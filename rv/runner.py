"""Instance scheduler (one killable process per instance), evidence writer, finding protocol."""
import importlib
import json
import multiprocessing as mp
import os
import sys
import time
import traceback

HERE = os.path.dirname(os.path.dirname(os.path.abspath(__file__)))
# dev-only redirections (seed / mutant runs must not overwrite the evidence of the registered checks)
EVID = os.environ.get('RV_EVIDENCE_DIR') or os.path.join(HERE, 'evidence')
REPLAY = os.environ.get('RV_REPLAY_DIR') or os.path.join(HERE, 'replay')
KNOWN = os.path.join(HERE, 'known_findings.json')

EXIT_OK, EXIT_VIOLATION, EXIT_INCONCLUSIVE = 0, 1, 3
DEGENERATE_REJECTIONS = ('Constraint must contain decision variables', 'You passed a constant to `subject_to`', 'constraint that is never statisfied')


def run_one(mod, prop, item):
    """run one instance in this process; exceptions of the real code become verdicts"""
    from rv.sx2smt import Unsupported, HarnessError, RockitRaised, DimMismatch
    t0 = time.time()
    decoy = None
    if os.environ.get('RV_NO_DECOY') != '1':
        from rv.decoy import run_decoy
        decoy = run_decoy(item)
    try:
        res = mod.run(item)
    except DimMismatch as e:
        res = {'status': 'violation', 'violations': [{
            'property': prop.upper(), 'key': 'dimension-mismatch|%s' % (item['cfg'].method if 'cfg' in item else item.get('kind', '')),
            'label': 'number of variables/parameters', 'detail': 'two real transcriptions that must be the same problem differ in size: %s (%s)' % (e, item.get('history', item.get('when', ''))),
            'cfg': repr(item.get('cfg')), 'spec': repr(item.get('spec'))[:600]}]}
    except RockitRaised as e:
        loc = str(e).split('|')[0]
        if item.get('may_raise'):
            res = {'status': 'ok', 'rejected': str(e), 'stats': {}, 'obligations': 1, 'discharged': 1}
        elif item.get('family') == 'random' and any(m in str(e) for m in DEGENERATE_REJECTIONS):
            # a randomly generated constraint instance turned out decision-free at one grid point (e.g. t = 0 at the first node):
            # rejecting it is the documented behaviour; the instance decides nothing -> skipped and counted, never passed
            res = {'status': 'skipped', 'why': 'random specification has a decision-free constraint instance, rejected by rockit: %s' % str(e)[-120:]}
        else:
            res = {'status': 'violation', 'violations': [{
                'property': prop.upper(), 'key': 'raises|%s|%s|%s' % (loc, str(e).split('|', 1)[1].split(':')[0] if '|' in str(e) else '', item['cfg'].method if 'cfg' in item else ''),
                'label': 'transcription raised', 'detail': 'real code raised on a well-posed specification: %s' % e,
                'cfg': repr(item.get('cfg')), 'spec': repr(item.get('spec'))}]}
    except Unsupported as e:
        res = {'status': 'skipped', 'why': str(e)}
    except HarnessError as e:
        res = {'status': 'harness', 'why': str(e)}
    res.setdefault('status', 'ok')
    res['wall_s'] = time.time() - t0
    res['id'] = item['id']
    res['decoy'] = decoy
    if item.get('soft'):
        res['soft'] = True
    return res


def _child(prop, item, conn):
    try:
        sys.stdout = open(os.devnull, 'w')
        mod = importlib.import_module('rv.props.' + prop)
        res = run_one(mod, prop, item)
    except BaseException as e:   # noqa
        res = {'status': 'error', 'id': item.get('id'), 'why': ''.join(traceback.format_exception(type(e), e, e.__traceback__))[-3000:]}
    try:
        conn.send(res)
    finally:
        conn.close()


def run_items(prop, items, jobs=None, timeout=300):
    if os.environ.get('RV_INSTANCE_TIMEOUT'):       # dev-only: mutant / seed runs do not need the full per-instance budget
        timeout = float(os.environ['RV_INSTANCE_TIMEOUT'])
        items = [dict(it, timeout=min(it.get('timeout', timeout), timeout)) for it in items]
    ctx = mp.get_context('fork')
    jobs = jobs or int(os.environ.get('VERIF_JOBS', '0')) or min(16, os.cpu_count() or 4)
    pending = list(items)[::-1]
    running = []
    results = []
    while pending or running:
        while pending and len(running) < jobs:
            it = pending.pop()
            pc, cc = ctx.Pipe(duplex=False)
            p = ctx.Process(target=_child, args=(prop, it, cc))
            p.start()
            cc.close()
            running.append((p, pc, it, time.time()))
        still = []
        for p, pc, it, t0 in running:
            if pc.poll(0):
                try:
                    results.append(pc.recv())
                except EOFError:
                    results.append({'status': 'error', 'id': it['id'], 'why': 'worker died'})
                p.join()
            elif not p.is_alive():
                if pc.poll(0.1):
                    results.append(pc.recv())
                else:
                    results.append({'status': 'error', 'id': it['id'], 'why': 'worker died (exit %s)' % p.exitcode})
                p.join()
            elif time.time() - t0 > it.get('timeout', timeout):
                p.kill()
                p.join()
                results.append({'status': 'timeout', 'id': it['id'], 'why': 'hard wall-clock limit %ss' % it.get('timeout', timeout),
                                'wall_s': time.time() - t0, 'soft': bool(it.get('soft'))})
            else:
                still.append((p, pc, it, t0))
        running = still
        time.sleep(0.02)
    order = {it['id']: i for i, it in enumerate(items)}
    results.sort(key=lambda r: order.get(r.get('id'), 1e9))
    return results


def load_known():
    if not os.path.exists(KNOWN):
        return []
    return json.load(open(KNOWN))['findings']


def finish(prop, tier, seed, level, results, meta, t_start):
    """aggregate, write evidence, print verdict lines, return exit code"""
    os.makedirs(EVID, exist_ok=True)
    known = [k for k in load_known() if k['property'] == prop]
    open_known = {k['key']: k for k in known if k.get('status') == 'open'}
    viols = []
    known_hits = {}
    stats = {}
    counts = {}
    samples = []
    nontrivial = set()
    obligations = discharged = 0
    instr = 0
    solver_s = 0.0
    twins_ok = twins_bad = 0
    twin_missed_ids = []
    incon = []
    soft_undecided = []
    skipped_why = []
    rejected_by_rockit = []
    for r in results:
        counts[r['status']] = counts.get(r['status'], 0) + 1
        for k, v in r.get('stats', {}).items():
            stats[k] = stats.get(k, 0) + v
        obligations += r.get('obligations', 0)
        discharged += r.get('discharged', 0)
        instr += r.get('sx_instructions', 0)
        for l in r.get('nontrivial', []):
            nontrivial.add((r.get('shape', r['id']), l))
        twins_ok += r.get('twins_ok', 0)
        twins_bad += r.get('twins_bad', 0)
        if r.get('twins_bad'):
            twin_missed_ids.append(r.get('id'))
        if r.get('sample') and len(samples) < 6:
            samples.append(r['sample'])
        for v in r.get('violations', []):
            v['instance'] = r['id']
            if v.get('key') in open_known:
                known_hits.setdefault(v['key'], []).append(v)
            else:
                viols.append(v)
        if r.get('rejected'):
            rejected_by_rockit.append({'id': r['id'], 'what': str(r.get('shape', ''))[:120], 'why': str(r['rejected'])[:200]})
        if r['status'] == 'skipped':
            skipped_why.append({'id': r['id'], 'why': str(r.get('why'))[:300]})
        if r.get('soft') and r['status'] in ('timeout', 'inconclusive') and not r.get('violations'):
            # randomly generated instance that the solver could not decide within its budget: counted, not a verdict
            soft_undecided.append({'id': r['id'], 'status': r['status'], 'why': str(r.get('why', r.get('inconclusive')))[:200]})
            continue
        if r['status'] in ('timeout', 'error', 'harness', 'inconclusive') or r.get('inconclusive'):
            incon.append({'id': r['id'], 'status': r['status'], 'why': str(r.get('why', r.get('inconclusive')))[:600]})
    # replay files
    lines = []
    if viols:
        d = os.path.join(REPLAY, prop)
        os.makedirs(d, exist_ok=True)
        for n, v in enumerate(viols[:20]):
            path = os.path.join(d, 'v%03d.json' % n)
            json.dump(v, open(path, 'w'), indent=1, default=str)
            lines.append('VIOLATION property=%s replay=%s' % (prop, path))
    for key, vs in known_hits.items():
        print('KNOWN-FINDING: property=%s %s (%d instance(s); %s)' % (prop, key, len(vs), open_known[key]['what']))
    wall = time.time() - t_start
    cov = {
        'programs': counts.get('ok', 0) + counts.get('violation', 0),
        'disagreements_checked': len(viols) + sum(len(v) for v in known_hits.values()),
        'evaluations': len(results),
        'distinct_nontrivial': len(nontrivial),
        'rule': meta.get('rule', ''),
        'samples': samples or [{'note': 'no instance completed'}],
        'obligations': obligations,
        'discharged': discharged,
        'queries': stats,
        'solver_time_s': round(stats.get('solver_s', 0.0), 3),
        'sx_instructions_translated': instr,
        'instances_by_status': counts,
        'twins_detected': twins_ok,
        'decoy_prelude': 'before each instance three unrelated small OCPs (other collocation scheme of the same degree, other N/M/integrator) are transcribed in the same process: state carried over between independent OCPs would change the instance; instances with a complete prelude: %d' % sum(1 for r in results if isinstance(r.get('decoy'), list) and not any(str(x).startswith('failed') for x in r['decoy'])),
        'instances_rejected_by_rockit_with_an_exception': len(rejected_by_rockit),
        'rejected_examples': rejected_by_rockit[:12],
        'twins_missed': twins_bad,
        'twins_missed_ids': twin_missed_ids[:10],
        'inconclusive': incon[:20],
        'undecided_random_instances_beyond_solver_reach': soft_undecided[:20],
        'undecided_random_instances': len(soft_undecided),
        'skipped_outside_bounds': skipped_why[:20],
        'known_findings_hit': {k: len(v) for k, v in known_hits.items()},
        'functions_encoded': meta.get('functions', []),
        'bounds': meta.get('bounds', ''),
        'outside_bounds': meta.get('outside', ''),
        'explanation': meta.get('explanation', ''),
        'exhaustive': False,
        'checker_cmd': 'z3 %s (python API), hard wall-clock kill per instance' % _z3v(),
        'trusted_base': meta.get('trusted', ['CasADi expression graph + Function.expand()', 'z3', 'rv/sx2smt.py (self-validated per trace)', 'rv/ref/*']),
    }
    ev = {'property_id': prop, 'tier': tier, 'seed': seed, 'level': level, 'coverage': cov,
          'assumptions': meta.get('assumptions', []), 'wall_s': round(wall, 2), 'violations': len(viols)}
    json.dump(ev, open(os.path.join(EVID, prop + '.json'), 'w'), indent=1, default=str)
    print('%s tier=%s instances=%d ok=%d skipped=%d obligations=%d discharged=%d unsat=%d sat=%d unknown=%d twins=%d/%d solver=%.1fs wall=%.1fs' % (
        prop, tier, len(results), counts.get('ok', 0), counts.get('skipped', 0), obligations, discharged,
        stats.get('unsat', 0), stats.get('sat', 0), stats.get('unknown', 0), twins_ok, twins_ok + twins_bad,
        stats.get('solver_s', 0.0), wall))
    for l in lines:
        print(l)
    if viols:
        for v in viols[:5]:
            print('  ->', v.get('instance'), v.get('key'), str(v.get('label'))[:200])
        return EXIT_VIOLATION
    if len(soft_undecided) > max(2, 0.02 * len(results)):
        incon.append({'id': '-', 'status': 'inconclusive', 'why': '%d randomly generated instances undecided (more than 2%%)' % len(soft_undecided)})
    if incon or twins_bad:
        for i in incon[:8]:
            print('INCONCLUSIVE', i['id'], i['status'], i['why'][-400:].replace('\n', ' | '))
        if twins_bad:
            print('INCONCLUSIVE twin (vacuity guard) not detected in %d instance(s): %s' % (twins_bad, twin_missed_ids[:10]))
        return EXIT_INCONCLUSIVE
    if counts.get('ok', 0) == 0:
        print('INCONCLUSIVE no instance completed')
        return EXIT_INCONCLUSIVE
    return EXIT_OK


def _z3v():
    try:
        import z3
        return z3.get_version_string()
    except Exception:
        return '?'
