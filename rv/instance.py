"""One traced instance: the real NLP as SMT terms + float fingerprints, and the named trajectory
quantities (obtained through rockit's public read-back API) in the same variables."""
import random
import time
from fractions import Fraction

import casadi as ca
import numpy as np

from . import dsl
from .extract import NLP, declare, quiet
from .sx2smt import DimMismatch, RockitRaised, QZ, FracZ3Domain, SXProgram, ConstPool, Z3Domain, RefZ3Domain, FloatDomain, PolyFloatDomain, HarnessError, Unsupported

NPTS = 3   # fingerprint points


class Traj:
    """named quantities of one stage in one arithmetic domain (see DESIGN 2.1)"""

    def __init__(self):
        self.P = {}
        self.Pc = {}
        self.V = {}
        self.Vc = {}
        self.U = []
        self.X = []


def _cols(flat, nrow):
    """flat column-major list -> list of columns"""
    n = len(flat) // nrow if nrow else 0
    return [flat[i * nrow:(i + 1) * nrow] for i in range(n)]


class Named:
    """collects (label -> MX) named read-back expressions for one stage"""

    def __init__(self, b, stage=None):
        self.b = b
        st = stage or b.stage
        spec, cfg = b.spec, b.cfg
        self.items = []   # (key, MX)
        self.st = st
        add = self.items.append
        with quiet():
            ts, xs = st.sample(st.x, grid='control')
            add(('tc', ts))
            add(('X', xs))
            if spec.nu:
                add(('U', st.sample(st.u, grid='control-')[1]))
            add(('T', st.value(st.T)))
            add(('t0', st.value(st.t0)))
            for s in spec.params:
                sym = b.psym[s.name]
                if s.grid == '':
                    add(('P', s.name, st.value(sym)))
                elif s.grid == 'control':
                    add(('Pc', s.name, st.sample(sym, grid='control-')[1]))
                else:
                    add(('Pc', s.name, st.sample(sym, grid='control')[1]))
            for s in spec.vars:
                sym = b.vsym[s.name]
                if s.grid == '':
                    add(('V', s.name, st.value(sym)))
                elif s.grid == 'control':
                    add(('Vc', s.name, st.sample(sym, grid='control-')[1]))
                else:
                    add(('Vc', s.name, st.sample(sym, grid='control')[1]))
            if cfg.method in ('MS', 'SS', 'DC'):
                ti, xi = st.sample(st.x, grid='integrator')
                add(('ti', ti))
                add(('Xi', xi))
            if cfg.method == 'DC':
                tr, xr = st.sample(st.x, grid='integrator_roots')
                add(('tr', tr))
                add(('Xr', xr))
                if spec.nz:
                    add(('Zr', st.sample(st.z, grid='integrator_roots')[1]))
                    add(('Zc', st.sample(st.z, grid='control')[1]))

    def exprs(self):
        return [it[-1] for it in self.items]

    def traj(self, vals, dom):
        """vals: list of flat lists aligned with self.items"""
        b = self.b
        spec, cfg = b.spec, b.cfg
        N, M = cfg.N, cfg.M
        tr = Traj()
        tr.dom = dom
        tr.N, tr.M = N, M
        tr.spec, tr.cfg = spec, cfg
        symd = {s.name: s for s in list(spec.params) + list(spec.vars)}
        for it, v in zip(self.items, vals):
            k = it[0]
            if k == 'tc':
                tr.tc = list(v)
            elif k == 'X':
                tr.X = _cols(v, spec.nx)
            elif k == 'U':
                tr.U = _cols(v, spec.nu)
            elif k in ('T', 't0'):
                setattr(tr, k, v[0])
            elif k in ('P', 'V'):
                getattr(tr, k)[it[1]] = list(v)
            elif k in ('Pc', 'Vc'):
                getattr(tr, k)[it[1]] = _cols(v, symd[it[1]].n)
            elif k == 'ti':
                tr.ti = list(v)
            elif k == 'Xi':
                tr.Xi = _cols(v, spec.nx)
            elif k == 'tr':
                tr.tr = list(v)
            elif k == 'Xr':
                tr.Xr = _cols(v, spec.nx)
            elif k == 'Zr':
                tr.Zr = _cols(v, spec.nz)
            elif k == 'Zc':
                tr.Zc = _cols(v, spec.nz)
        if not spec.nu:
            tr.U = [[] for _ in range(N)]
        return tr


class MultiNamed:
    """named quantities of several stages of one multi-stage OCP"""

    def __init__(self, nameds):
        self.nameds = nameds
        self.items = []
        self.slices = []
        for n in nameds:
            a = len(self.items)
            self.items += n.items
            self.slices.append((a, len(self.items)))

    def exprs(self):
        return [it[-1] for it in self.items]

    def traj(self, vals, dom):
        return self.trajs(vals, dom)[0]

    def trajs(self, vals, dom):
        return [n.traj(vals[a:b], dom) for n, (a, b) in zip(self.nameds, self.slices)]


class Inst:
    """traced instance"""

    def __init__(self, spec, cfg, seed=0, poly=False, extra_named=None, solver=True, built=None,
                 extra_outputs=None, like=None, bind=None, named=True):
        """like/bind: relational use.  `like` = another Inst whose pool/UFs/points are shared;
        bind(self.nlp, like) -> dict domain -> (flat x values, flat p values) expressed in `like`'s variables."""
        self.like, self.bind = like, bind
        self.want_named = named
        self.spec, self.cfg, self.poly = spec, cfg, poly
        self.rng = random.Random(seed)
        t0 = time.time()
        try:
            self.b = built or declare(spec, cfg, poly=poly)
            self.nlp = NLP(self.b, solver=solver)
            stages = getattr(self.b, 'stage_builts', None)
            if stages:
                self.named = MultiNamed([Named(bs) for bs in stages])
            else:
                self.named = Named(self.b)
        except (HarnessError, Unsupported):
            raise
        except Exception as e:
            import traceback
            tb = traceback.extract_tb(e.__traceback__)
            where = [f for f in tb if '/rockit/' in f.filename]
            loc = ('%s:%s' % (where[-1].filename.split('/rockit/')[-1], where[-1].name)) if where else '?'
            raise RockitRaised('%s|%s: %s' % (loc, type(e).__name__, (str(e).strip().splitlines() or [''])[-1][:200]))
        self.t_rockit = time.time() - t0
        if callable(extra_outputs):
            try:
                with quiet():
                    extra_outputs = extra_outputs(self.b)
            except (HarnessError, Unsupported):
                raise
            except Exception as e:
                # read-back queries (sample / value / sampler ...) are rockit calls too: an exception raised inside rockit is the code's answer
                import traceback
                tb = traceback.extract_tb(e.__traceback__)
                where = [f for f in tb if '/rockit/' in f.filename]
                if not where:
                    raise
                raise RockitRaised('%s:%s|%s: %s' % (where[-1].filename.split('/rockit/')[-1], where[-1].name, type(e).__name__, (str(e).strip().splitlines() or [''])[-1][:200]))
            if isinstance(extra_outputs, tuple):
                # (outputs, extra free symbols): the symbols become additional universally quantified inputs
                extra_outputs, extra_syms = extra_outputs
                self.nlp.psyms = list(self.nlp.psyms) + list(extra_syms)
                self.nlp.np += sum(s.numel() for s in extra_syms)
        self._trace(extra_outputs or [])

    def _trace(self, extra):
        nlp = self.nlp
        self.kinds = nlp.bounds_kind(self.rng)
        lb_idx = [i for i, (a, c) in enumerate(self.kinds) if a]
        ub_idx = [i for i, (a, c) in enumerate(self.kinds) if c]
        self.lb_idx, self.ub_idx = lb_idx, ub_idx
        lb = nlp.lbg[lb_idx] if lb_idx else ca.MX(0, 1)
        ub = nlp.ubg[ub_idx] if ub_idx else ca.MX(0, 1)
        outs = [nlp.f, nlp.g, lb, ub] + self.named.exprs() + list(extra)
        self.n_extra = len(extra)
        t0 = time.time()
        self.prog = SXProgram(nlp.xsyms + nlp.psyms, outs)
        self.prog.selfcheck(self.rng)
        import z3
        self.z3 = z3
        like = self.like
        if like is None:
            self.pool = ConstPool()
            self.zdom = Z3Domain(self.pool, poly=self.poly)
            self.rdom = RefZ3Domain(self.zdom)
        else:
            self.pool, self.zdom, self.rdom = like.pool, like.zdom, like.rdom
        self.fdom = PolyFloatDomain() if self.poly else FloatDomain()
        if self.bind is None:
            self.xv = [z3.Real('x%d' % i) for i in range(nlp.nx)]
            self.pv = [z3.Real('p%d' % i) for i in range(nlp.np)]
            self.pts = []
            for _ in range(NPTS):
                self.pts.append(([self.rng.uniform(0.15, 0.6) * self.rng.choice([1, 1, 1, -1]) for _ in range(nlp.nx)],
                                 [self.rng.uniform(0.3, 0.9) for _ in range(nlp.np)]))
        else:
            bound = self.bind(nlp, like)
            self.xv, self.pv = list(bound['z'][0]), list(bound['z'][1])
            self.pts = [(list(bound[d][0]), list(bound[d][1])) for d in range(NPTS)]
            if len(self.xv) != nlp.nx or len(self.pv) != nlp.np:
                raise DimMismatch('the two transcriptions have different sizes: %d vs %d decision variables, %d vs %d parameters' % (len(self.xv), nlp.nx, len(self.pv), nlp.np))
        self.zout = self.prog.run(self.zdom, nlp.split(self.xv, nlp.xsyms) + nlp.split(self.pv, nlp.psyms))
        self.fout = []
        for pt in self.pts:
            self.fout.append(self.prog.run(self.fdom, nlp.split(pt[0], nlp.xsyms) + nlp.split(pt[1], nlp.psyms)))
        self.t_trace = time.time() - t0

    def frac_extra(self):
        """extra outputs as rational functions n/d (second run of the same program in the fraction domain)"""
        if not hasattr(self, '_zq'):
            nlp = self.nlp
            fd = FracZ3Domain(self.zdom)
            ins = [[QZ(v) for v in grp] for grp in nlp.split(self.xv, nlp.xsyms) + nlp.split(self.pv, nlp.psyms)]
            self._zq = self.prog.run(fd, ins)
        nn = len(self.named.items)
        return self._zq[4 + nn:]

    # ---- views ---------------------------------------------------------------------------
    def view(self, d):
        """d = 'z' or point index -> (f, g, lb, ub, named vals, extra)"""
        o = self.zout if d == 'z' else self.fout[d]
        nn = len(self.named.items)
        return o[0][0], o[1], o[2], o[3], o[4:4 + nn], o[4 + nn:]

    def traj(self, d):
        if d == 'z':
            vals = [[self.rdom.wrap(x) for x in v] for v in self.view(d)[4]]
            return self.named.traj(vals, self.rdom)
        return self.named.traj(self.view(d)[4], self.fdom)

    def trajs(self, d):
        """per-stage trajectories of a multi-stage instance"""
        if d == 'z':
            vals = [[self.rdom.wrap(x) for x in v] for v in self.view(d)[4]]
            return self.named.trajs(vals, self.rdom)
        return self.named.trajs(self.view(d)[4], self.fdom)

    def domains(self):
        return ['z'] + list(range(NPTS))

    def atoms(self, d):
        """normalised atoms of the real NLP in domain d: list of (kind, term, row)"""
        f, g, lb, ub, _, _ = self.view(d)
        lbd = dict(zip(self.lb_idx, lb))
        ubd = dict(zip(self.ub_idx, ub))
        res = []
        for i in range(len(g)):
            hl, hu = self.kinds[i]
            if hl and hu and self._same(lbd[i], ubd[i], i):
                res.append(('eq', g[i] - lbd[i], i))
            else:
                if hl:
                    res.append(('le', lbd[i] - g[i], i))
                if hu:
                    res.append(('le', g[i] - ubd[i], i))
        return res

    def _same(self, a, b, i):
        """lb === ub decided on the z3 view (syntactic after simplify), cached per row"""
        if not hasattr(self, '_eqrow'):
            self._eqrow = {}
        if i not in self._eqrow:
            z3 = self.z3
            _, _, lb, ub, _, _ = self.view('z')
            za = dict(zip(self.lb_idx, lb))[i]
            zb = dict(zip(self.ub_idx, ub))[i]
            self._eqrow[i] = z3.eq(z3.simplify(za - zb), z3.RealVal(0))
        return self._eqrow[i]
