"""Seeded random *configurations*: constraint sets and objective term lists over whatever symbols a
model has.  Values stay symbolic (solver); these generators only widen the enumerated side."""
from fractions import Fraction as Fr

from .dsl import (Con, C, X, U, Z, Pg, Vg, Q, t, T, t0, tf, DT, DTc, nl1, nl2, at_t0, at_tf, integral,
                  integral_control, sum_, wsum, offset, PINF, NINF)
from .families import rexpr, pdeg


def symbols(spec):
    """leaf expressions by kind"""
    d = {}
    d['x'] = [X(i) for i in range(spec.nx)]
    d['u'] = [U(i) for i in range(spec.nu)]
    d['z'] = [Z(i) for i in range(spec.nz)]
    horizon = {k[1] for k in (spec.t0, spec.T) if k[0] == 'param'}
    d['pg'] = [Pg(p.name, i) for p in spec.params if p.grid == '' and p.name not in horizon for i in range(p.n)]
    d['pc'] = [Pg(p.name) for p in spec.params if p.grid == 'control' and p.n == 1]
    d['pp'] = [Pg(p.name) for p in spec.params if p.grid == 'control+' and p.n == 1]
    d['vg'] = [Vg(v.name) for v in spec.vars if v.grid == '']
    d['vc'] = [Vg(v.name) for v in spec.vars if v.grid == 'control']
    d['vp'] = [Vg(v.name) for v in spec.vars if v.grid == 'control+']
    return d


def _bounded(rng, leaves, depth, maxdeg, nl=True):
    for _ in range(40):
        e = rexpr(rng, leaves, depth, nl)
        if pdeg(e) <= maxdeg:
            return e
    return rng.choice(leaves)


def _must_contain(rng, leaves, must, depth, maxdeg):
    """random expression that certainly contains one leaf out of `must`"""
    e = _bounded(rng, leaves, depth, max(1, maxdeg - 1))
    m = rng.choice(must)
    return e + m if rng.random() < 0.5 else (e * m if pdeg(e) + 1 <= maxdeg else e - m)


def _fval(e, salt, dsalt, special):
    """pseudo-random float evaluation: leaves for which special(op, args) holds depend on dsalt, everything else on salt only"""
    import math
    import zlib

    def h(key, sl):
        return 0.3 + (zlib.crc32(repr((key, sl)).encode()) % 10007) / 10007.0

    class D:
        const = staticmethod(lambda c: float(c))
        nl1 = staticmethod(lambda a: math.sin(1.3 * a) + 0.1 * a)
        nl2 = staticmethod(lambda a, b: math.hypot(a + 0.2, b - 0.1) + 0.01 * a * b)
        div = staticmethod(lambda a, b: a / b)

    def run(e, ctx, inside):
        def leaf(op, a):
            return h((op, a, ctx), dsalt if special(op, a, inside) else salt)

        def wrap(op, node):
            if op == 'wsum':
                return sum(float(w) * run(c_, ctx + (op, node.a[0], i_), True) for i_, (w, c_) in enumerate(zip(node.a[3], node.a[4:])))
            return run(node.a[0], ctx + (op, node.a[1:] and node.a[1]), inside or op != 'offset')
        from .dsl import ev
        return ev(e, leaf, D, wrap)
    return run(e, (), False)


def _depends(e, special):
    a = _fval(e, 1, 1, special)
    return any(abs(_fval(e, 1, d, special) - a) > 1e-9 * max(1.0, abs(a)) for d in (2, 3))


def depends_on_decision(e):
    """does the expression (numerically) depend on states/controls/algebraics/variables?  (x - x, 0*x do not)"""
    return _depends(e, lambda op, a, inside: op in ('x', 'u', 'z', 'v'))


def signal_consistent(spec, e):
    """syntactic and numeric time-dependence agree ((pc - pc)*x is syntactically a signal, numerically a constant)"""
    grids = {('p', p.name): p.grid for p in spec.params}
    grids.update({('v', v.name): v.grid for v in spec.vars})

    def sig(op, a, inside):
        if inside:        # under at_t0/at_tf/integral/sum: not a signal any more
            return False
        if op in ('x', 'u', 'z', 't', 'DT', 'DTc', 'q'):
            return True
        return op in ('p', 'v') and grids.get((op, a[0]), '') != ''
    from .dsl import leaves, E

    def syntactic(e, inside=False):
        if not isinstance(e, E):
            return False
        if e.op in ('at_t0', 'at_tf', 'integral', 'integral_control', 'sum', 'wsum'):
            return False
        if e.op == 'c':
            return False
        if e.op in ('x', 'u', 'z', 't', 'DT', 'DTc', 'q', 'p', 'v', 'T', 't0', 'tf'):
            return sig(e.op, e.a, False)
        return any(syntactic(x) for x in e.a)
    return syntactic(e) == _depends(e, sig)


def _con_ok(c, spec):
    for lhs, rhs, mid in c.components():
        body = (lhs - rhs) if mid is None else mid
        if not depends_on_decision(body):
            return False
        if not signal_consistent(spec, body):
            return False
    return True


def random_constraints(rng, spec, method, M, n=None):
    for _ in range(20):
        cs = [c for c in _random_constraints(rng, spec, method, M, n) if _con_ok(c, spec)]
        if cs:
            return cs
    return []


def _random_constraints(rng, spec, method, M, n=None):
    s = symbols(spec)
    glob = s['pg'] + s['vg'] + [T, t0, tf]
    node = s['x'] + s['u'] + s['pc'] + s['pp'] + s['vc'] + s['vp'] + [t] + s['pg'] + s['vg']
    # per-node leaves that exist at every control node (algebraic values at nodes only under DC)
    if method == 'DC':
        node_z = node + s['z']
    else:
        node_z = node
    intg = s['x'] + s['u'] + s['pc'] + s['vc'] + [t, DT] + s['pg'] + s['vg']
    ops = ['<=', '>=', '==', '<=<=']
    out = []
    n = n or rng.choice([3, 4, 5])
    kinds = ['path', 'path', 'intg', 'bnd', 'bnd', 'off', 'int', 'vec', 'glob']
    if method == 'DC':
        kinds += ['roots', 'roots']
    signal_must = s['x'] + s['u']
    dec = s['x'] + s['u'] + s['z'] + s['vc'] + s['vg']

    def rhs_const():
        r = rng.random()
        if r < 0.5:
            return C(rng.choice([1, 2, 3, 5, Fr(1, 2), -4]))
        if r < 0.8 and glob:
            return rng.choice(glob) + rng.choice([1, 2])
        return C(0)

    def mk(op, body, bound, **kw):
        if op == '<=<=':
            return Con('<=<=', -rng.choice([1, 2, 7]), rng.choice([1, 3, 9]), mid=body, **kw)
        if op == '>=' and rng.random() < 0.5:
            return Con('>=', bound, body, **kw)       # bound >= body
        return Con(op, body, bound, **kw)
    for _ in range(n):
        k = rng.choice(kinds)
        op = rng.choice(ops)
        if k == 'path':
            body = _must_contain(rng, node_z, signal_must, 2, 3)
            out.append(mk(op, body, rhs_const(), include_first=rng.random() < 0.7, include_last=rng.random() < 0.7,
                          grid=rng.choice([None, None, 'control'])))
        elif k == 'intg':
            body = _must_contain(rng, intg, s['x'], 2, 3)
            out.append(mk(op, body, rhs_const(), grid='integrator', include_first=rng.random() < 0.7, include_last=rng.random() < 0.7))
        elif k == 'roots':
            body = _must_contain(rng, s['x'] + s['u'] + s['z'] + s['pc'] + s['vc'] + [t] + s['pg'], s['x'] + s['z'], 2, 3)
            out.append(mk(op, body, rhs_const(), grid='integrator_roots'))
        elif k == 'bnd':
            a = at_t0(_must_contain(rng, node_z, s['x'], 1, 2)) if rng.random() < 0.6 else None
            b = at_tf(_must_contain(rng, node_z, s['x'], 1, 2)) if (a is None or rng.random() < 0.6) else None
            body = a if b is None else (b if a is None else (a + b if rng.random() < 0.5 else a * b))
            if glob and rng.random() < 0.4:
                body = body * rng.choice(glob)
            out.append(mk(op, body, rhs_const()))
        elif k == 'off':
            base = rng.choice(s['x'] + s['u'] + s['pc'] + s['vc'] + s['vp'] + s['pp'] + [t])
            sh = rng.choice([1, 1, -1, -1, 2, -2])
            other = _must_contain(rng, node, s['x'], 1, 2)
            inner = base if rng.random() < 0.6 else base * rng.choice(s['x'] + [t])
            body = offset(inner, sh) - other if rng.random() < 0.7 else offset(inner, sh) * other
            out.append(mk(op if op != '==' else '<=', body, rhs_const(), include_first=rng.random() < 0.8, include_last=rng.random() < 0.8))
        elif k == 'int':
            r = rng.random()
            e = _must_contain(rng, s['x'] + s['u'] + [t] + s['pc'] + s['vc'] + s['pg'], s['x'] + s['u'], 1, 2)
            if spec.nxt is not None:
                r = 0.4 + 0.45 * r       # ocp.integral needs continuous-time dynamics (set_der asserts otherwise)
            if r < 0.4:
                body = integral(e)
            elif r < 0.6:
                body = integral_control(e)
            elif r < 0.85:
                body = sum_(e, include_last=rng.random() < 0.5)
            else:
                body = integral(e) + at_tf(rng.choice(s['x']))
            out.append(mk(op if op != '==' else '<=', body, rhs_const()))
        elif k == 'vec':
            m = rng.choice([2, 3])
            comps = [_must_contain(rng, node, signal_must, 1, 2) for _ in range(m)]
            bound = [rhs_const() for _ in range(m)] if rng.random() < 0.5 else rhs_const()
            if op == '<=<=':
                lo = [rng.choice([-3, -1, NINF]) for _ in range(m)]
                hi = [rng.choice([2, 5, PINF]) for _ in range(m)]
                for j_ in range(m):
                    if isinstance(lo[j_], type(NINF)) and isinstance(hi[j_], type(NINF)):
                        hi[j_] = 5          # a row without any bound is no constraint
                out.append(Con('<=<=', lo, hi, mid=comps))
            else:
                out.append(Con(op, comps, bound, grid=rng.choice([None, 'integrator']) if all(_leaf_ok_intg(c) for c in comps) else None))
        elif k == 'glob':
            if not s['vg'] and spec.T[0] != 'free' and spec.t0[0] != 'free':
                continue
            cand = list(s['vg']) + ([T] if spec.T[0] == 'free' else []) + ([t0] if spec.t0[0] == 'free' else [])
            body = rng.choice(cand) * rng.choice([1, 2, 3]) + (rng.choice(s['pg']) if s['pg'] and rng.random() < 0.5 else C(0))
            out.append(mk(op, body, C(rng.choice([4, 6, 10]))))
    return out


def _leaf_ok_intg(e):
    """no control+ / algebraic leaves (not defined on the integrator grid in the reference)"""
    from .dsl import leaves
    for l in leaves(e):
        if l[0] == 'z':
            return False
    return True


def random_objective(rng, spec, method):
    s = symbols(spec)
    glob = s['pg'] + s['vg'] + [T, t0, tf]
    node = s['x'] + s['u'] + s['pc'] + s['pp'] + s['vc'] + s['vp'] + [t] + s['pg'] + s['vg']
    sig = s['x'] + s['u'] + s['pc'] + s['vc'] + [t] + s['pg'] + s['vg'] + (s['z'] if method == 'DC' else [])
    terms = []
    for _ in range(rng.choice([2, 3, 4])):
        r = rng.random()
        if r < 0.2:
            term = at_tf(_bounded(rng, node, 2, 3))
        elif r < 0.3:
            term = at_t0(_bounded(rng, node, 2, 3))
        elif r < 0.55 and spec.nxt is None:
            term = integral(_must_contain(rng, sig, s['x'] + s['u'] + s['z'], 2, 3))
        elif r < 0.65:
            term = integral_control(_must_contain(rng, node, s['x'] + s['u'], 1, 2))
        elif r < 0.78:
            term = sum_(_must_contain(rng, node, s['x'] + s['u'], 1, 2), include_last=rng.random() < 0.5)
        elif r < 0.88:
            # ONE ocp.sum / at_tf call on a row, column or matrix valued expression, then weighted
            rows, cols = rng.choice([(1, 2), (2, 1), (2, 2), (1, 3), (3, 2)])
            comps = [_must_contain(rng, node, s['x'] + s['u'], 1, 2) for _ in range(rows * cols)]
            term = wsum(rng.choice(['sum', 'sum+', 'sum', 'at_tf']), rows, cols, [rng.choice([1, 2, -1, 3, Fr(1, 2)]) for _ in comps], comps)
        else:
            term = _bounded(rng, glob, 1, 2, nl=False)
        if rng.random() < 0.25:
            term = term * rng.choice(glob + [C(2)])
        if rng.random() < 0.15:
            term = term + at_tf(rng.choice(s['x'])) * at_t0(rng.choice(s['x']))
        terms.append(term)
    return terms
