#!/usr/bin/env python3
"""regenerate /verif/seeded/INDEX.md from the meta.json files"""
import json, glob, os
HERE = os.path.dirname(os.path.dirname(os.path.abspath(__file__)))
rows = []
for mp in sorted(glob.glob(os.path.join(HERE, 'seeded', '*', 'meta.json'))):
    m = json.load(open(mp))
    ck = '; '.join('%s: %s' % (c, 'caught (%d)' % v['violations'] if v['exit'] == 1 and v['violations'] else 'MISSED' if v['exit'] == 0 else 'exit %d' % v['exit']) for c, v in sorted(m.get('checks', {}).items()))
    if m.get('neutralised_on_current_repo'):
        ck = 'NEUTRALISED by a later repair of /repo: the change no longer alters behaviour (its demo passes with the patch applied); kept for the record. ' + ck
    rows.append('| %s | %s | %s | %s | %s | %s |' % (m['seed'], m['breaks_property'], m.get('change', '').replace('|', '/'), m.get('needs_to_manifest', '').replace('|', '/'),
                                                   'yes' if m.get('demo', {}).get('exit_unchanged') == 0 and m.get('demo', {}).get('exit_changed') else 'NO', ck))
out = ['# Seeded regressions (written by independent sub-agents, validated by selftest/try_seed.py)', '',
       'Each directory holds `patch.diff`, the demonstration script and `meta.json`.  "demo" = passes on the unchanged tree and fails with the change.',
       'Checks are the registered quick commands run against a scratch copy of /repo/rockit with the patch applied.', '',
       '| seed | property | change | needs to manifest | demo | registered checks |', '|---|---|---|---|---|---|'] + rows
open(os.path.join(HERE, 'seeded', 'INDEX.md'), 'w').write('\n'.join(out) + '\n')
print('\n'.join(rows))
