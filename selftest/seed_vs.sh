#!/bin/bash
# usage: seed_vs.sh <seed-id> <check> [tier]   -- run one check against a scratch copy of /repo/rockit with the stored seed patch applied (dev tool)
HERE="$(cd "$(dirname "$0")/.." && pwd)"
d=$(mktemp -d /tmp/rvseedvs_XXXX)
cp -r /repo/rockit "$d/rockit"
( cd "$d" && (git apply -p1 "$HERE/seeded/$1/patch.diff" 2>/dev/null || patch -p1 -F3 -s -i "$HERE/seeded/$1/patch.diff") ) || { echo "patch does not apply"; rm -rf "$d"; exit 2; }
ROCKIT_SRC="$d" RV_REPLAY_DIR="$d/replay" RV_EVIDENCE_DIR="$d/evidence" RV_INSTANCE_TIMEOUT=60 "$HERE/run.sh" check "$2" --tier "${3:-quick}" | grep -E "VIOLATION|tier=|->" | head -${4:-8} | cut -c1-220
echo "exit=${PIPESTATUS[0]}"
rm -rf "$d"
