#!/usr/bin/env python3
"""usage: add_fixed.py <property> <commit> <key> <what failed> <failing input>  -- append a 'fixed' entry to known_findings.json (dev tool)"""
import json, sys
prop, commit, key, what, inp = sys.argv[1:6]
p = '/verif/known_findings.json'
d = json.load(open(p))
d['findings'].append({'property': prop, 'status': 'fixed', 'commit': commit, 'key': key, 'what': 'fixed: property=%s %s %s' % (prop, commit, what), 'failing_input': inp})
json.dump(d, open(p, 'w'), indent=1)
print(len(d['findings']), 'entries')
