#!/usr/bin/env python3
"""Dev-only mutation self-test: apply one-line mutations of the anchored mechanisms to a scratch copy of
/repo/rockit (never /repo itself), run the registered check with ROCKIT_SRC pointing at the copy and
expect exit 1.  usage: run_mutants.py [--tier quick] [name-substring ...]"""
import os, shutil, subprocess, sys, tempfile, time

HERE = os.path.dirname(os.path.dirname(os.path.abspath(__file__)))
M = [
 # name, file, old, new, properties expected to catch
 ('rk-stage3-time', 'sampling_method.py', 'k3 = f(x=X + DT / 2 * k2["ode"], u=U, p=P, t=t0+DT/2)', 'k3 = f(x=X + DT / 2 * k2["ode"], u=U, p=P, t=t0+DT)', ['C01']),
 ('rk-weights', 'sampling_method.py', 'X + DT / 6 * (k1["ode"] + 2 * k2["ode"] + 2 * k3["ode"] + k4["ode"])', 'X + DT / 6 * (k1["ode"] + 2 * k2["ode"] + 2 * k3["ode"] + k4["ode"]*1.000001)', ['C01']),
 ('substep-time', 'sampling_method.py', '            t0_local += DT\n', '            t0_local += 0\n', ['C01']),
 ('psys-interval', 'sampling_method.py', "                rep(self.get_p_control_at(stage, k)),\n                rep(self.get_p_control_plus_at(stage, k))] + p_sig", "                rep(self.get_p_control_at(stage, 0)),\n                rep(self.get_p_control_plus_at(stage, k))] + p_sig", ['C01']),
 ('ms-gap-dt', 'multiple_shooting.py', "T=self.control_grid[k + 1] - self.control_grid[k], p=self.get_p_sys(stage, k), z0=self.Z0[k])", "T=self.control_grid[1] - self.control_grid[0], p=self.get_p_sys(stage, k), z0=self.Z0[k])", ['C01']),
 ('ss-t0', 'single_shooting.py', "FF = F(x0=self.X[k], u=self.U[k], t0=self.control_grid[k],", "FF = F(x0=self.X[k], u=self.U[k], t0=self.control_grid[0],", ['C01']),
 ('euler-step', 'sampling_method.py', 'X + DT * k["ode"], poly_coeff, DT * k["quad"]', 'X + DT_control * k["ode"], poly_coeff, DT * k["quad"]', ['C01']),
 ('diffeq-DTc', 'sampling_method.py', "intg_res = intg(x0=X[-1], u=U, t0=t0_local, DT=DT, DT_control=T, p=P, z0=Z0_current)", "intg_res = intg(x0=X[-1], u=U, t0=t0_local, DT=DT, DT_control=DT, p=P, z0=Z0_current)", ['C01']),
 # --- C02
 ('dc-C-index', 'direct_collocation.py', 'Pidot_j = mtimes(self.Xc[k][i],self.C[:,j])/ dt', 'Pidot_j = mtimes(self.Xc[k][i],self.C[:,max(j-1,0)])/ dt', ['C02']),
 ('dc-root-time', 'direct_collocation.py', 'tr.append([self.integrator_grid[k][i]+dt*self.tau[j] for j in range(self.degree)])', 'tr.append([self.integrator_grid[k][0]+dt*self.tau[j] for j in range(self.degree)])', ['C02']),
 ('dc-z-col', 'direct_collocation.py', 'res = f(x=self.Xc[k][i][:, j+1], u=self.U[k], z=self.Zc[k][i][:,j], p=p_total, t=self.tr[k][i][j])', 'res = f(x=self.Xc[k][i][:, j+1], u=self.U[k], z=self.Zc[k][i][:,0], p=p_total, t=self.tr[k][i][j])', ['C02']),
 ('dc-cont-next', 'direct_collocation.py', 'x_next = self.X[k + 1] if i==self.M-1 else self.Xc[k][i+1][:,0]', 'x_next = self.X[k + 1] if i==self.M-1 else self.Xc[k][i][:,0]', ['C02']),
 ('dc-dt-M', 'direct_collocation.py', "            dt = (self.control_grid[k + 1] - self.control_grid[k])/self.M\n            dts.append(dt)", "            dt = (self.control_grid[k + 1] - self.control_grid[k])\n            dts.append(dt)", ['C02']),
 # --- C04
 ('ms-include-last', 'multiple_shooting.py', '            if not args["include_last"]: continue\n', '            if False: continue\n', ['C04']),
 ('ss-include-first', 'single_shooting.py', '                if k==0 and not args["include_first"]: continue\n                try:', '                if False: continue\n                try:', ['C04']),
 ('final-node-pcontrol', 'sampling_method.py', "        p_control = self.get_p_control_at(stage, k) if k!=len(self.U) else self.get_p_control_at(stage, k-1)", "        p_control = self.get_p_control_at(stage, k) if k!=len(self.U) else self.get_p_control_at(stage, 0)", ['C04']),
 ('offset-shift', 'sampling_method.py', "subst_to.append(self._eval_at_control(stage, vvcat(offsets[offset]), k_abs+offset))", "subst_to.append(self._eval_at_control(stage, vvcat(offsets[offset]), max(k_abs+offset-1,0)))", ['C04']),
 ('dc-intg-constraint-idx', 'direct_collocation.py', "                    opti.subject_to(self.eval_at_integrator(stage, c, k, i), scale=args[\"scale\"], meta=meta)", "                    opti.subject_to(self.eval_at_integrator(stage, c, k, 0), scale=args[\"scale\"], meta=meta)", ['C04']),
 ('at-tf-filter', 'sampling_method.py', "            if 'r_at_tf' in [a.name() for a in symvar(e)]:\n                opti.subject_to(e, args[\"scale\"], meta=meta)", "            if 'r_at_tf' in [a.name() for a in symvar(e)] and 'r_at_t0' not in [a.name() for a in symvar(e)]:\n                opti.subject_to(e, args[\"scale\"], meta=meta)", ['C04']),
 ('eval-control-time', 'sampling_method.py', "                                 v_states=self.get_v_states_at(stage, k),\n                                 t=self.control_grid[k],\n                                 DT=DT,", "                                 v_states=self.get_v_states_at(stage, k),\n                                 t=self.control_grid[max(k,0)],\n                                 DT=DT,", ['C04']),
 # --- C05
 ('sum-skip-first', 'sampling_method.py', "        r = 0\n        for k in range(self.N):\n            r = r + self.eval_at_control(stage, expr, k)\n        return r\n\n    def fill_placeholders_sum_control_plus", "        r = 0\n        for k in range(1,self.N):\n            r = r + self.eval_at_control(stage, expr, k)\n        return r\n\n    def fill_placeholders_sum_control_plus", ['C05']),
 ('dc-quad-weight', 'direct_collocation.py', 'self.q = self.q + res["quad"]*dt*self.B[j]', 'self.q = self.q + res["quad"]*dt*self.B[j-1]', ['C05']),
 ('rk-quad-weights', 'sampling_method.py', 'DT / 6 * (k1["quad"] + 2 * k2["quad"] + 2 * k3["quad"] + k4["quad"])', 'DT / 6 * (k1["quad"] + 2 * k2["quad"] + 2 * k3["quad"] + k1["quad"])', ['C05']),
 ('integral-control-weights', 'sampling_method.py', "return ca.sum2(ca.diff(ts).T*exprs[:,:-1])", "return ca.sum2(ca.diff(ts).T*exprs[:,1:])", ['C05']),
 ('at-t0-node', 'sampling_method.py', "        return self.eval_at_control(stage, expr, 0)\n\n    def fill_placeholders_at_tf", "        return self.eval_at_control(stage, expr, 1)\n\n    def fill_placeholders_at_tf", ['C05', 'C04']),
 ('ms-quad-accumulate', 'multiple_shooting.py', '            xqk_temp = self.q+FF["Qi"]', '            xqk_temp = FF["Qi"]', ['C07']),
 # --- C14
 ('scale-bounds-not-scaled', 'direct_method.py', "                        lb = mc.lb/scale\n                        canon = mc.canon/scale\n                        ub = mc.ub/scale", "                        lb = mc.lb\n                        canon = mc.canon/scale\n                        ub = mc.ub/scale", ['C14']),
 ('scale-eq-lb', 'direct_method.py', "                        lb = mc.lb/scale\n                        canon = mc.canon/scale\n                        c = lb==canon", "                        lb = mc.lb\n                        canon = mc.canon/scale\n                        c = lb==canon", ['C14']),
 ('scale-vcontrol-missing', 'sampling_method.py', "            self.V_control[i].append(opti.variable(v.shape[0], v.shape[1], scale=stage._scale[v], domain=stage._catalog[v]['domain']))", "            self.V_control[i].append(opti.variable(v.shape[0], v.shape[1], scale=stage._scale[v]*0+1, domain=stage._catalog[v]['domain']))", ['C14']),
 ('dc-helper-scale', 'direct_collocation.py', "xc = opti.variable(stage.nx, self.degree, scale=repmat(scale_x, 1, self.degree))", "xc = opti.variable(stage.nx, self.degree, scale=repmat(scale_x, 1, self.degree)**2)", ['C14']),
 # --- C06
 ('geo-normalized', 'sampling_method.py', "            vec.append(vec[-1]+base)\n            base *= g", "            vec.append(vec[-1]+base)\n            base *= g*g", ['C06']),
 ('geo-scale-first', 'sampling_method.py', "    def scale_first(self, N):\n        return self.normalized(N)[1]", "    def scale_first(self, N):\n        return 1.0/N", ['C06']),
 ('intg-grid', 'sampling_method.py', "t_local = linspace(self.control_grid[k], self.control_grid[k+1], self.M+1)", "t_local = linspace(self.control_grid[k], self.control_grid[k]+(self.control_grid[-1]-self.control_grid[0])/self.N, self.M+1)", ['C06', 'C01']),
 ('dtcontrol-last', 'sampling_method.py', "            return self.control_grid[-1]-self.control_grid[-2]\n        return", "            return self.control_grid[1]-self.control_grid[0]\n        return", ['C06']),
 ('free-finalize', 'sampling_method.py', "        opti.subject_to(control_grid[-1]==tf)", "        pass", ['C06']),
 ('localize-t0-row', 'sampling_method.py', "            yield (t0_local[k]+Tk==t0_local[k+1],{})", "            yield (t0_local[k]+Tk==t0_local[k+1],{}) if k>0 else (t0_local[k]+2*Tk==t0_local[k+1],{})", ['C06']),
 ('uniform-constrain', 'sampling_method.py', "        return (Tnext==T,{})", "        return (Tnext>=T,{})", ['C06']),
 ('function-grid-call', 'sampling_method.py', "    def __call__(self, t0, T, N):\n        n = self.normalized(N)\n        return t0 + hcat(n)*T\n\n    def normalized(self, N):\n        return self.normalized_fun(N)", "    def __call__(self, t0, T, N):\n        n = self.normalized(N)\n        return t0 + hcat(n[:-1]+[n[-1]*1.0001])*T\n\n    def normalized(self, N):\n        return self.normalized_fun(N)", ['C06']),
 # --- C11
 ('free-T-nonneg', 'direct_method.py', "                stage.subject_to(stage._T>=0)\n", "", ['C11']),
 ('free-T-guess', 'direct_method.py', "                stage.set_initial(stage._T, init,priority=True)\n                return stage._T", "                stage.set_initial(stage._T, init+1,priority=True)\n                return stage._T", ['C11']),
 ('free-t0-as-zero', 'sampling_method.py', "        self.t0 = self.eval(stage, stage._t0)\n", "        self.t0 = self.eval(stage, stage._t0) if ca.MX(self.eval(stage, stage._t0)).is_constant() else 0*self.eval(stage, stage._t0)\n", ['C11']),
 ('tf-placeholder', 'stage.py', "        self._tf = self.T + self.t0", "        self._tf = self.T + 2*self.t0", ['C11', 'C04', 'C05']),
 # --- C09
 ('pcontrol-plus-index', 'sampling_method.py', "        return veccat(*[p[k] for p in self.P_control_plus])", "        return veccat(*[p[k if k==-1 else max(k-1,0)] for p in self.P_control_plus])", ['C09']),
 ('setvalue-after-ignored', 'sampling_method.py', "                found = True\n                opti.set_value(hcat(self.P_control[i]), value)\n        for i, p in enumerate(stage.parameters['control+']):\n            if is_equal(parameter, p):\n                found = True\n                opti.set_value(hcat(self.P_control_plus[i]), value)\n        for p in stage.parameters['bspline']:\n            if is_equal(parameter, p):\n                found = True\n                opti.set_value(self.signals[p].coeff, value)\n        assert found", "                found = True\n        for i, p in enumerate(stage.parameters['control+']):\n            if is_equal(parameter, p):\n                found = True\n                opti.set_value(hcat(self.P_control_plus[i]), value)\n        for p in stage.parameters['bspline']:\n            if is_equal(parameter, p):\n                found = True\n                opti.set_value(self.signals[p].coeff, value)\n        assert found", ['C09']),
 ('setparam-columns-reversed', 'sampling_method.py', "            opti.set_value(hcat(self.P_control[i]), stage._param_value(p))", "            opti.set_value(hcat(self.P_control[i][::-1]), stage._param_value(p))", ['C09']),
 ('param-value-stale', 'stage.py', "                self._method.set_value(self, self.master._method, parameter, value)\n", "                self._method.set_value(self, self.master._method, parameter, value) if not is_equal(parameter, self.parameters[''][0]) else None\n", ['C09']),
 # --- C13
 ('setT-no-invalidate', 'stage.py', "    def set_T(self, T):\n        self._set_transcribed(False)\n", "    def set_T(self, T):\n", ['C13']),
 ('clear-constraints-no-invalidate', 'stage.py', '        self._set_transcribed(False)\n        self._constraints = defaultdict(list)', '        self._constraints = defaultdict(list)', ['C13']),
 ('add-objective-no-invalidate', 'stage.py', '        self._set_transcribed(False)\n        self._objective = self._objective + term', '        self._objective = self._objective + term', ['C13']),
 ('method-inherit-solver', 'direct_method.py', "        if template and template._solver_options is not None:\n            self._solver_options = template._solver_options", "        if template and template._solver_options is not None:\n            self._solver_options = {}", ['C13']),
 ('set-initial-not-reapplied', 'stage.py', "            if hasattr(self._method, 'set_initial_all'):\n                self._method.set_initial_all(self._augmented, self.master._method, self._initial)", "            if hasattr(self._method, 'set_initial_all'):\n                pass", ['C13']),
 # --- C18
 ('load-drops-guesses', 'ocp.py', "            return pickle.load(open(name,\"rb\"))", "            r = pickle.load(open(name,\"rb\"))\n            r._initial = type(r._initial)()\n            return r", ['C18']),
 ('pickle-drops-solver-options', 'direct_method.py', "    def clean(self):\n        self.V = None\n        self.P = []\n", "    def clean(self):\n        self.V = None\n        self.P = []\n\n    def __getstate__(self):\n        d = dict(self.__dict__)\n        d['_solver_options'] = {}\n        return d\n", ['C18']),
 ('pickle-param-value-order', 'stage.py', "    def iter_stages(self, include_self=False):", "    def __setstate__(self, d):\n        self.__dict__.update(d)\n        ks = list(self._param_vals.keys())\n        if len(ks) >= 2:\n            a, b = self._param_vals[ks[0]], self._param_vals[ks[1]]\n            if DM(a).shape == DM(b).shape:\n                self._param_vals[ks[0]], self._param_vals[ks[1]] = b, a\n\n    def iter_stages(self, include_self=False):", ['C18']),
 ('save-damages-original', 'ocp.py', "    def save(self,name):\n        self._untranscribe()", "    def save(self,name):\n        self._untranscribe()\n        self._initial = type(self._initial)()", ['C18']),
 # --- C12
 ('clone-ignores-T-override', 'stage.py', '        if "T" not in kwargs:\n            ret._T = copy(self._T)', '        if True:\n            ret._T = copy(self._T)', ['C12']),
 ('clone-shares-initial', 'stage.py', "        ret._initial = HashOrderedDict(zip(res[n_constr+1:], initial_values))", "        ret._initial = HashOrderedDict()", ['C12']),
 ('stage-objective-dropped', 'sampling_method.py', "    def add_objective(self, stage, opti):\n        opti.add_objective(self.eval(stage, stage._objective))", "    def add_objective(self, stage, opti):\n        if stage is stage.master or stage.master._stages[0] is stage: opti.add_objective(self.eval(stage, stage._objective))", ['C12']),
 ('master-eval-wrong-stage', 'sampling_method.py', "        return stage.master._method.eval_top(stage.master,\n                                             stage._expr_apply(expr,\n                                                               p=veccat(*self.P),", "        return stage.master._method.eval_top(stage.master,\n                                             stage.master._stages[0]._expr_apply(expr,\n                                                               p=veccat(*self.P),", ['C12']),
 # --- C07
 ('intg-sample-u-next', 'sampling_method.py', "                                                               u=self.U[k], p_control=self.get_p_control_at(stage, k),", "                                                               u=self.U[min(k+1,len(self.U)-1)], p_control=self.get_p_control_at(stage, k),", ['C07']),
 ('dm2numpy-order', 'casadi_helpers.py', "def DM2numpy(dm, expr_shape, tdim=None):", "def DM2numpy(dm, expr_shape, tdim=None):\n    if tdim and expr_shape[0]>1 and expr_shape[1]>1:\n        import numpy as _np\n        return _np.array(dm).reshape((expr_shape[0], tdim, expr_shape[1]), order='F').transpose((1,2,0))", ['C07']),
 ('root-sample-z', 'sampling_method.py', "                                                               z=self.zr[k][i][:,j] if self.zk else nan,", "                                                               z=self.zr[k][i][:,0] if self.zk else nan,", ['C02']),
 ('value-eval-T', 'sampling_method.py', "                                                               t0=stage.t0,\n                                                               T=stage.T))", "                                                               t0=stage.T,\n                                                               T=stage.T))", ['C07']),
 # --- C08
 ('rk-poly-f2', 'sampling_method.py', "        f2 = 4/DT**2*(k3[\"ode\"]-k2[\"ode\"])/6\n        f3 = 4*(k4[\"ode\"]-2*k3[\"ode\"]+k1[\"ode\"])/DT**3/24\n        poly_coeff = hcat([X, f0, f1, f2, f3])", "        f2 = 4/DT**2*(k3[\"ode\"]-k2[\"ode\"])/3\n        f3 = 4*(k4[\"ode\"]-2*k3[\"ode\"]+k1[\"ode\"])/DT**3/24\n        poly_coeff = hcat([X, f0, f1, f2, f3])", ['C08']),
 ('fine-local-time', 'stage.py', "            dt = (time[k+1]-time[k])/M\n            tlocal = linspace(MX(0), dt, refine + 1)", "            dt = (time[-1]-time[0])/N/M\n            tlocal = linspace(MX(0), dt, refine + 1)", ['C08']),
 ('fine-coeff-index', 'stage.py', "coeff = None if stage._method.poly_coeff is None else stage._method.poly_coeff[k * M + l]", "coeff = None if stage._method.poly_coeff is None else stage._method.poly_coeff[k * M]", ['C08']),
 ('sampler-coeff-slice', 'stage.py', "        coeff = coeffs[:,(i*s+DM(range(s)).T)]", "        coeff = coeffs[:,(i*s+DM(range(s)).T)[::-1]] if False else coeffs[:,(min(i+1,len(self._method.poly_coeff)-1)*s+DM(range(s)).T)]", ['C08']),
 ('sampler-local-time', 'stage.py', "        tlocal = t-ti\n", "        tlocal = t-time[k*M]\n", ['C08']),
 ('dc-poly-scale', 'direct_collocation.py', "            S = 1/repmat(hcat([dt**i for i in range(self.degree + 1)]), self.degree + 1, 1)", "            S = 1/repmat(hcat([(dt*self.M)**i for i in range(self.degree + 1)]), self.degree + 1, 1)", ['C08']),
 ('euler-poly', 'sampling_method.py', '        poly_coeff = hcat([X, k["ode"]])', '        poly_coeff = hcat([X, k["ode"]*DT/DT_control])', ['C08']),
 # --- C16
 ('der-drops-dt', 'stage.py', 'vertcat(xdot(ode(x=self.x, u=self.u, z=self.z, p=vertcat(self.p, self.v), t=self.t)), 1, *der_symbols))', 'vertcat(xdot(ode(x=self.x, u=self.u, z=self.z, p=vertcat(self.p, self.v), t=self.t)), 0, *der_symbols))', ['C16']),
 ('der-ode-at-t0', 'stage.py', '                return jtimes(expr, x, xdot(ode(x=self.x, u=self.u, z=self.z, p=vertcat(self.p, self.v), t=self.t)))', '                return jtimes(expr, x, xdot(ode(x=self.x, u=self.u, z=self.z, p=vertcat(self.p, self.v), t=0)))', ['C16']),
 ('chain-order', 'stage.py', "            helper_u = self.control(n_rows=n_rows, n_cols=n_cols, order=order - 1, scale=scale)", "            helper_u = self.control(n_rows=n_rows, n_cols=n_cols, order=max(order - 2,0), scale=scale)", ['C16']),
 # --- C10
 ('guess-column-shift', 'sampling_method.py', "                    kk = k if k>=0 else value.shape[1]//c-1\n", "                    kk = max(k-1,0) if k>=0 else value.shape[1]//c-1\n", ['C10']),
 ('guess-second-pass-missing', 'sampling_method.py', "        self.set_initial(stage, opti, initial_guesses) # Redo this: ocp.t is correct only now\n", "", ['C10']),
 ('dc-root-guess-time', 'direct_collocation.py', "expr_integrator_root = ca.hcat([self.eval_at_integrator_root(stage, expr, k, i, j) for k in list(range(self.N)) for i in range(self.M) for j in range(self.degree) ])", "expr_integrator_root = ca.hcat([self.eval_at_integrator_root(stage, expr, k, i, 0) for k in list(range(self.N)) for i in range(self.M) for j in range(self.degree) ])", ['C10']),
 ('priority-order', 'stage.py', "            self._initial.move_to_end(var, last=not priority)", "            self._initial.move_to_end(var, last=True)", []),
 ('setinitial-after-ignored', 'stage.py', "        if self.master is not None and self.master.is_transcribed:\n            if hasattr(self._method, 'set_initial_all'):", "        if self.master is not None and self.master.is_transcribed and False:\n            if hasattr(self._method, 'set_initial_all'):", ['C10']),
 ('free-T-guess-shift', 'direct_method.py', "                stage.set_initial(stage._T, init,priority=True)\n                return stage._T", "                stage.set_initial(stage._T, init*1.5,priority=True)\n                return stage._T", ['C10']),
 # --- C15
 ('inf-tscale-global', 'sampling_method.py', "        tscale = (self.control_grid[k + 1] - self.control_grid[k])/self.M\n", "        tscale = self.T / self.N / self.M\n", ['C15']),
 # ('inf-bernstein-matrix': entry [2][2] 1/6 -> 1/8) removed: equivalent for step polynomials of degree <= 2 (a convex quadratic attains its maximum at an end point, a concave one is over-estimated), which is all the C15 models produce; z3 answers `unknown` on it (exit 3)
 ('inf-coeff-index', 'sampling_method.py', "        coeff = stage._method.poly_coeff[k * self.M + l]\n", "        coeff = stage._method.poly_coeff[k * self.M]\n", ['C15']),
 ('inf-last-interval-skipped', 'multiple_shooting.py', "                for c, meta, args in stage._constraints[\"inf\"]:\n                    self.add_inf_constraints(stage, opti, c, k, l, meta, scale=args[\"scale\"])", "                for c, meta, args in stage._constraints[\"inf\"]:\n                    if k<self.N-1 or self.N==1: self.add_inf_constraints(stage, opti, c, k, l, meta, scale=args[\"scale\"])", ['C15']),
 # --- C17
 ('bspline-derivative-scale', 'splines/micro_spline.py', "  scale = d/delta_xi\n", "  scale = (d+1)/delta_xi\n", ['C17']),
 ('basis-recursion', 'splines/micro_spline.py', "        dbg_ref2 = (kid - xr) * norm\n        basis = MX(knots.numel() - e - 1, N)", "        dbg_ref2 = (kid - xr) * norm * (1 if e<3 else 0.99)\n        basis = MX(knots.numel() - e - 1, N)", ['C17']),
 ('signal-der-T', 'sampling_method.py', "        return BSplineSignal(bspline_derivative(self.coeff,self.xi,self.degree)/self.T, self.xi, self.degree-1, T=self.T)", "        return BSplineSignal(bspline_derivative(self.coeff,self.xi,self.degree), self.xi, self.degree-1, T=self.T)", ['C17']),
 ('greville', 'splines/micro_spline.py', "    source = (cs.DM(range(d,0,-1))/(cs.DM.ones(d,1)*d)).nonzeros()", "    source = (cs.DM(range(d,0,-1))/(cs.DM.ones(d,1)*d)).nonzeros()[::-1]", ['C17']),
 ('spline-time-refine', 'spline_method.py', "            self.time[refine] = ca.reshape(self.t0 + tau_refined*self.T, self.time[refine].shape)", "            pass", ['C17']),
 # --- C03
 ('builtin-time-rescale', 'sampling_method.py', "        res = f(x=X, u=U, p=P, t=t0+t*DT, z=Z)", "        res = f(x=X, u=U, p=P, t=t0+t, z=Z)", ['C03']),
 ('builtin-ode-scale', 'sampling_method.py', "'ode': DT * res[\"ode\"], 'quad': DT * res[\"quad\"]", "'ode': DT_control * res[\"ode\"], 'quad': DT * res[\"quad\"]", ['C03']),
 ('simulator-time', 'ocp.py', "        [ode,alg] = substitute([ode,alg],[self.t],[t0+tau*dt])", "        [ode,alg] = substitute([ode,alg],[self.t],[t0+tau])", ['C03']),
 ('rk-quad-order', 'sampling_method.py', 'DT / 6 * (k1["quad"] + 2 * k2["quad"] + 2 * k3["quad"] + k4["quad"])', 'DT / 6 * (k1["quad"] + 4 * k2["quad"] + k4["quad"])', ['C03', 'C05']),
 ('rk-stage2-state', 'sampling_method.py', '        k3 = f(x=X + DT / 2 * k2["ode"], u=U, p=P, t=t0+DT/2)', '        k3 = f(x=X + DT / 2 * k1["ode"], u=U, p=P, t=t0+DT/2)', ['C03', 'C01']),
 ('dc-quad-weights-radau1', 'direct_collocation.py', "        self.B = hcat(B)\n", "        pass\n", ['C03', 'C05']),
 # --- C19
 ('tofunction-dc-helper-init', 'direct_collocation.py', "                self.Xc_vars0.append(repmat(x, 1, self.degree if i==0 else self.degree+1))", "                self.Xc_vars0.append(repmat(self.X[0], 1, self.degree if i==0 else self.degree+1))", ['C19']),
 ('tofunction-args-value', 'sampling_method.py', "        if not local:\n            return opti.to_function(name, args_v, results, *margs)", "        if not local:\n            return opti.to_function(name, args_v, [results[0]*2]+list(results[1:]), *margs)", ['C19']),
 # --- mechanisms repaired in batch 7 (one mutant each: the repair is load-bearing and its check instance notices its absence)
 ('dc-last-control-equality', 'direct_collocation.py', "if k==-1 and is_same_expr(target, self.eval_at_control(stage, var, self.N-1)):", "if k==-1 and ca.is_equal(target, self.eval_at_control(stage, var, self.N-1)):", ['C10']),
 # ('spline-product-first-column', ...) removed: since repair a487443 rejects every non-scalar grid='inf' constraint, no accepted body reaches the matrix-coefficient branch of BSpline.__mul__ any more (equivalent mutant)
 ('substage-query-in-place', 'stage.py', "            self.master._transcribed # transcribes a copy: the declared specification stays as it is", "            self.master._transcribe()", ['C13']),
 ('horizon-parameter-local-guesses', 'stage.py', "               (localized and horizon and depends_on(veccat(*horizon), veccat(*ca.symvar(MX(parameter))))):", "               False:", ['C09']),
 ('clone-drops-inf-der', 'stage.py', "        ret._inf_der = HashOrderedDict(zip(self._inf_der.keys(), renew(self._inf_der.values())))\n", "", ['C12']),
 ('clone-signal-derivative-unlinked', 'stage.py', "                ret._signals[symbol].derivative = ret._signals[signal.derivative.symbol]", "                pass", ['C17']),
 ('signal-fraction-at-integrator', 'sampling_method.py', "signals=(self.signals, self.get_signals_at_fraction(stage, k, i/self.M)),", "signals=(self.signals, self.get_signals_at_fraction(stage, k, 0)),", ['C17']),
 ('signal-fraction-at-root', 'sampling_method.py', "signals=(self.signals, self.get_signals_at_fraction(stage, k, (i+float(self.tau[j]))/self.M)),", "signals=(self.signals, self.get_signals_at_fraction(stage, k, i/self.M)),", ['C17']),
 ('gist-greville-degree', 'sampling_method.py', "                G = get_greville_points(self.xi, s.degree)\n                return self.t0+G*self.T, (J[:,deps] @ s.coeff[rows,:])+b", "                G = get_greville_points(self.xi, max(s.degree-1, 1))\n                return self.t0+G*self.T, (J[:,deps] @ s.coeff[rows,:])+b", ['C17']),
 ('dc-signal-guess-dropped', 'direct_collocation.py', "                if var in self.signals:\n                    target = stage.sample(var,'gist')[1]\n                    opti.set_initial(target, ca.repmat(value,1,target.shape[1]), cache_advanced=True)\n", "", ['C17']),
 ('save-keeps-substage-copies', 'ocp.py', "            for s in self.iter_stages():\n                s._var_augmented = None\n", "", ['C18']),
 ('quad-state-not-signal', 'stage.py', "vertcat(self.x, self.xq, self.u, self.z, self.t, self.DT, self.DT_control,", "vertcat(self.x, self.u, self.z, self.t, self.DT, self.DT_control,", ['C04']),
 ('generic-localized-ratio', 'sampling_method.py', "        return (Tnext*(n[k+1]-n[k])==T*(n[k+2]-n[k+1]),{})", "        return (Tnext==T,{})", ['C06']),
 ('generic-scale-first', 'sampling_method.py', "        n = self.normalized(N)\n        return n[1]-n[0]", "        n = self.normalized(N)\n        return 1.0/N", ['C06']),
 ('callback-bound-early', 'direct_method.py', "        self._callback = (stage, fun)\n", "        opti_now = self.opti\n        self._callback = (stage, lambda iter, sol: fun(iter, OcpSolution(opti_now.non_converged_solution, stage)))\n", ['C13']),
 ('time-vector-float', 'solution.py', "        return np.atleast_1d(self.sol.value(time)), DM2numpy(res, MX(expr).shape, time.numel())", "        return self.sol.value(time), DM2numpy(res, MX(expr).shape, time.numel())", ['C07']),
 # --- mechanisms repaired after batch 8
 ('stale-copy-not-refused', 'ocp.py', "            if getattr(self, '_var_stale', False):\n", "            if False:\n", ['C13']),
 ('transcribe-in-place', 'ocp.py', "        if self._is_original and not kwargs:\n            self._transcribed # transcribes a copy: the declared specification stays as it is\n        else:\n            self._transcribe(**kwargs)", "        self._transcribe(**kwargs)", ['C13']),
 ('objective-without-substages', 'stage.py', "            r = r + cached[1]\n", "            pass\n", ['C12']),
 ('objective-substages-summed-symbolically', 'stage.py', "            r = r + cached[1]\n", "            r = r + o\n", ['C12']),
 ('inf-time-frozen', 'sampling_method.py', "        subst_to.append(BSpline(basis, self.integrator_grid[k][l] + tscale*DM(range(degree+1))/degree))", "        subst_to.append(BSpline(basis, self.integrator_grid[k][l] + 0*tscale*DM(range(degree+1))/degree))", ['C15']),
 ('scalar-expression-guess-not-repeated', 'sampling_method.py', "                if value.shape[0]==1 and var.is_column() and not var.is_scalar(): value = repmat(value, var.shape[0], 1)\n            # Row vector if vector", "            # Row vector if vector", ['C10']),
 ('parent-constraint-scale-dropped', 'direct_method.py', "            self.opti.subject_to(self.eval_top(stage, c), scale=args[\"scale\"], meta = m)", "            self.opti.subject_to(self.eval_top(stage, c), meta = m)", ['C12']),
 ('array-guess-single-columns', 'sampling_method.py', "                    value_k = value[:,kk*c:(kk+1)*c]", "                    value_k = value[:,kk]", ['C10']),
 # --- mechanisms repaired after batch 9
 ('der-ignores-quadrature-states', 'stage.py', "        x = vertcat(self.x, self.xq)\n        xdot = lambda res: vertcat(res[\"ode\"], res[\"quad\"])", "        x = self.x\n        xdot = lambda res: res[\"ode\"]", ['C16']),
 ('inf-on-quadrature-accepted', 'sampling_method.py', "        if ca.depends_on(c, vertcat(stage.xq, stage.z)):\n", "        if False:\n", ['C15']),
 ('parent-guess-before-values', 'direct_method.py', "        self.set_parameter(stage, self.opti) # first: guesses may be expressions of the parameters\n        self.set_initial(stage, self.opti, stage._initial)\n", "        self.set_initial(stage, self.opti, stage._initial)\n        self.set_parameter(stage, self.opti)\n", ['C09']),
 # --- mechanisms repaired after batch 10
 ('inf-scale-ignored', 'sampling_method.py', "            opti.subject_to(self.eval_at_control(stage, c_spline, k), scale=scale, meta=meta)", "            opti.subject_to(self.eval_at_control(stage, c_spline, k), meta=meta)", ['C14']),
 ('inf-scale-ignored-dc', 'direct_collocation.py', "self.add_inf_constraints(stage, opti, c, k, i, meta, scale=args[\"scale\"])", "self.add_inf_constraints(stage, opti, c, k, i, meta)", ['C14']),
 ('bspline-on-free-knots-accepted', 'sampling_method.py', "            if isinstance(self.time_grid, FreeGrid) and (stage.variables['bspline'] or stage.parameters['bspline']):\n", "            if False:\n", ['C17']),
 # --- mechanisms repaired after batch 11
 ('substage-guess-refresh-own-stage-only', 'stage.py', "            for s in self.master.iter_stages(include_self=True):\n                if not hasattr(s._method, 'set_initial_all'):\n", "            for s in [self]:\n                if not hasattr(s._method, 'set_initial_all'):\n", ['C09']),
 ('repeated-guess-keeps-position', 'stage.py', "            self._initial.move_to_end(var, last=not priority)\n", "            if priority: self._initial.move_to_end(var, last=False)\n", ['C10']),
 ('failed-transcription-reused', 'ocp.py', "                self._original._set_transcribed(False)\n                raise\n", "                raise\n", ['C10']),
 ('vector-inf-constraint-accepted', 'sampling_method.py', "        if not c.is_scalar():\n            raise Exception(\"A grid='inf' constraint must be scalar-valued", "        if False:\n            raise Exception(\"A grid='inf' constraint must be scalar-valued", ['C15']),
 # --- mechanisms repaired after batch 12
 ('parent-guess-refresh-skipped', 'stage.py', "                    if hasattr(s._method, 'set_initial') and any(isinstance(v, MX) and not v.is_constant() for v in s._initial.values()):\n", "                    if False:\n", ['C09']),
 ('inf-on-signal-accepted', 'sampling_method.py', "        if ca.depends_on(c, vvcat(stage._signals.keys())):\n", "        if False:\n", ['C15']),
 # --- batch 13
 ('param-signal-horizon', 'sampling_method.py', "BSplineSignal(C, self.xi, d, T = self.T,parametric=True)", "BSplineSignal(C, self.xi, d, T = 2*self.T,parametric=True)", ['C17']),
 ('stateless-guess-refresh', 'stage.py', "if hasattr(s._method, 'set_initial') and any(isinstance(v, MX) and not v.is_constant() for v in s._initial.values()):", "if s._stages and hasattr(s._method, 'set_initial') and any(isinstance(v, MX) and not v.is_constant() for v in s._initial.values()):", ['C13']),
 ('load-resets-localize-T-of-integrator-grids', 'ocp.py', "            return pickle.load(open(name,\"rb\"))", "            ocp = pickle.load(open(name,\"rb\"))\n        for s in ocp.iter_stages(include_self=True):\n            g = getattr(s._method, 'time_grid', None)\n            if hasattr(g, 'cache'): g.localize_T = False\n        return ocp", ['C18']),
 # --- batch 14
 ('root-pcontrol-plus-next-node', 'sampling_method.py', "                                                               p_control_plus=self.get_p_control_plus_at(stage, k),\n                                                               v=self.V, p=veccat(*self.P),\n                                                               v_control=self.get_v_control_at(stage, k),\n                                                               v_control_plus=self.get_v_control_plus_at(stage, k),\n                                                               signals=(self.signals, self.get_signals_at_fraction(stage, k, (i+float(self.tau[j]))/self.M)),", "                                                               p_control_plus=self.get_p_control_plus_at(stage, k+1),\n                                                               v=self.V, p=veccat(*self.P),\n                                                               v_control=self.get_v_control_at(stage, k),\n                                                               v_control_plus=self.get_v_control_plus_at(stage, k),\n                                                               signals=(self.signals, self.get_signals_at_fraction(stage, k, (i+float(self.tau[j]))/self.M)),", ['C09']),
 # --- batch 15
 ('dc-signal-at-step-end', 'direct_collocation.py', "            subgrid+=list((i+np.array(self.tau))/self.M)", "            subgrid+=list((i+np.array(self.tau)*0+1.0)/self.M)", ['C17']),
]

def main():
    args = [a for a in sys.argv[1:] if not a.startswith('--')]
    tier = 'quick'
    if '--tier' in sys.argv:
        tier = sys.argv[sys.argv.index('--tier') + 1]
        args = [a for a in args if a != tier]
    sel = [m for m in M if not args or any(a in m[0] or a in m[4] for a in args)]
    bad = 0
    for name, fn, old, new, props in sel:
        d = tempfile.mkdtemp(prefix='rvmut_')
        try:
            shutil.copytree('/repo/rockit', os.path.join(d, 'rockit'))
            p = os.path.join(d, 'rockit', fn)
            s = open(p).read()
            if s.count(old) != 1:
                print('%-24s MUTATION DOES NOT APPLY (count=%d)' % (name, s.count(old))); bad += 1; continue
            open(p, 'w').write(s.replace(old, new))
            for prop in props:
                if args and not any(a in name or a == prop for a in args):
                    continue
                t0 = time.time()
                env = dict(os.environ, ROCKIT_SRC=d, RV_REPLAY_DIR=os.path.join(d, 'replay'), RV_EVIDENCE_DIR=os.path.join(d, 'evidence'), RV_INSTANCE_TIMEOUT='120' if prop == 'C15' else '45')
                r = subprocess.run([os.path.join(HERE, 'run.sh'), 'check', prop, '--tier', tier], env=env, capture_output=True, text=True)
                nv = r.stdout.count('VIOLATION property=')
                ok = r.returncode == 1 and nv > 0
                bad += (not ok)
                print('%-24s %s exit=%d violations=%d %.0fs %s' % (name, prop, r.returncode, nv, time.time() - t0, 'CAUGHT' if ok else 'MISSED'))
                if not ok:
                    print(r.stdout[-800:], r.stderr[-800:])
        finally:
            shutil.rmtree(d, ignore_errors=True)
    # evidence files were rewritten by mutant runs: caller should re-run the real checks
    sys.exit(1 if bad else 0)

main()
