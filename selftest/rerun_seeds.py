#!/usr/bin/env python3
"""Re-run every recorded seeded regression (seeded/<id>/patch.diff) against the CURRENT checks and the CURRENT /repo.

usage: rerun_seeds.py [seed-id ...]
For each seed: copy /repo/rockit to a scratch directory, apply the stored patch (git apply, then patch(1) with fuzz), run the
quick check of the property the seed breaks with ROCKIT_SRC pointing at the scratch copy, record the outcome in meta.json.
/repo itself is never touched.  Dev-only tool (not registered in MANIFEST.json)."""
import json, os, shutil, subprocess, sys, tempfile, time, glob
from concurrent.futures import ThreadPoolExecutor

HERE = os.path.dirname(os.path.dirname(os.path.abspath(__file__)))


def sh(cmd, **kw):
    return subprocess.run(cmd, capture_output=True, text=True, **kw)


def one(sid):
    out = os.path.join(HERE, 'seeded', sid)
    mp = os.path.join(out, 'meta.json')
    meta = json.load(open(mp))
    prop = meta['breaks_property']
    d = tempfile.mkdtemp(prefix='rvseed_')
    try:
        shutil.copytree('/repo/rockit', os.path.join(d, 'rockit'))
        r = sh(['git', 'apply', '--directory=' + d, '-p1', os.path.join(out, 'patch.diff')], cwd='/')
        if r.returncode:
            r = sh(['patch', '-p1', '-F3', '-d', d, '-i', os.path.join(out, 'patch.diff')])
        if r.returncode:
            return sid, prop, 'PATCH-DOES-NOT-APPLY', 0
        demo_ok = None
        demos = glob.glob(os.path.join(out, 'demo_*.py'))
        if demos:
            r0 = sh(['/venv/bin/python', demos[0]], env=dict(os.environ, PYTHONPATH='/repo'), cwd=d)
            r1 = sh(['/venv/bin/python', demos[0]], env=dict(os.environ, PYTHONPATH=d), cwd=d)
            demo_ok = (r0.returncode == 0 and r1.returncode != 0)
            if r0.returncode == 0 and r1.returncode == 0:
                # the seeded change no longer alters behaviour on the current /repo (a later repair removed the mechanism it relied on):
                # by the seed criteria themselves (demo must fail with the change) it is not a regression of this tree any more
                meta['neutralised_on_current_repo'] = True
                meta['demo_still_discriminates'] = False
                json.dump(meta, open(mp, 'w'), indent=1)
                return sid, prop, 'NEUTRALISED (demo passes with the change applied to the current /repo)', 0
            marker = meta.get('loud_rejection_marker')
            if marker and r1.returncode != 0 and marker in (r1.stdout + r1.stderr):
                # on the current /repo the seeded change no longer yields a SILENT wrong result: the operation is refused with a clear
                # exception, which is the alternative the property itself allows ("honoured or rejected, never silently ignored")
                meta['neutralised_on_current_repo'] = 'refused loudly'
                json.dump(meta, open(mp, 'w'), indent=1)
                return sid, prop, 'NEUTRALISED (the change now makes rockit refuse loudly: %s...)' % marker[:50], 0
            meta.pop('neutralised_on_current_repo', None)
        env = dict(os.environ, ROCKIT_SRC=d, RV_REPLAY_DIR=os.path.join(d, 'replay'), RV_EVIDENCE_DIR=os.path.join(d, 'evidence'), RV_INSTANCE_TIMEOUT='45')
        verdict, nv = 'MISSED', 0
        for c in (meta.get('caught_by') or [prop]):
            r = sh([os.path.join(HERE, 'run.sh'), 'check', c, '--tier', 'quick'], env=env)
            nv = r.stdout.count('VIOLATION property=')
            meta.setdefault('checks', {})[c] = {'tier': 'quick', 'exit': r.returncode, 'violations': nv, 'rerun': time.strftime('%Y-%m-%d')}
            if r.returncode == 1 and nv:
                verdict = 'CAUGHT by ' + c
                break
            verdict = 'MISSED(exit=%d)' % r.returncode
        meta['demo_still_discriminates'] = demo_ok
        json.dump(meta, open(mp, 'w'), indent=1)
        return sid, prop, verdict + ('' if demo_ok in (True, None) else ' [demo no longer discriminates]'), nv
    finally:
        shutil.rmtree(d, ignore_errors=True)


def main():
    ids = sys.argv[1:] or sorted(os.path.basename(p) for p in glob.glob(os.path.join(HERE, 'seeded', '*')) if os.path.isdir(p))
    with ThreadPoolExecutor(max_workers=4) as ex:
        for sid, prop, verdict, nv in ex.map(one, ids):
            print('%-40s %s %s (%d)' % (sid, prop, verdict, nv), flush=True)


main()
