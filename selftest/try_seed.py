#!/usr/bin/env python3
"""Validate and record a seeded regression produced in a scratch worktree, then run registered checks against it.

usage: try_seed.py <seed-id> <worktree> <property> [check ...]
 - takes `git diff` of the worktree (source change) and its demo_*.py
 - confirms: demo passes on the unchanged tree, fails with the change (both run against copies via PYTHONPATH)
 - runs the named checks (default: the property's own) against a scratch copy of /repo/rockit with the patch applied
   (ROCKIT_SRC), never against /repo itself, and records everything in /verif/seeded/<seed-id>/
"""
import json, os, shutil, subprocess, sys, tempfile, time, glob

HERE = os.path.dirname(os.path.dirname(os.path.abspath(__file__)))


def sh(cmd, **kw):
    return subprocess.run(cmd, capture_output=True, text=True, **kw)


def main():
    sid, wt, prop = sys.argv[1:4]
    checks = [prop] + [c for c in sys.argv[4:] if c != prop]
    tier = os.environ.get('SEED_TIER', 'quick')
    out = os.path.join(HERE, 'seeded', sid)
    os.makedirs(out, exist_ok=True)
    diff = sh(['git', '-C', wt, 'diff', '--', 'rockit']).stdout
    if not diff.strip():
        print('no source change in', wt); sys.exit(2)
    open(os.path.join(out, 'patch.diff'), 'w').write(diff)
    demos = glob.glob(os.path.join(wt, 'demo_*.py'))
    demo = demos[0] if demos else None
    if demo:
        shutil.copy(demo, os.path.join(out, os.path.basename(demo)))
        demo = os.path.join(out, os.path.basename(demo))     # run the copy: a script's own directory precedes PYTHONPATH
        src = open(demo).read().splitlines()
        src = [((l[:len(l) - len(l.lstrip())] + 'pass  # (worktree path assertion removed for the recorded copy)' + ('\n' if l.endswith('\n') else '')) if ('rockit.__file__' in l and 'assert' in l) else l) for l in src]
        open(demo, 'w').write('\n'.join(src) + '\n')
    d = tempfile.mkdtemp(prefix='rvseed_')
    meta = {'seed': sid, 'breaks_property': prop, 'files': sorted({l[6:] for l in diff.splitlines() if l.startswith('+++ b/')})}
    try:
        shutil.copytree('/repo/rockit', os.path.join(d, 'rockit'))
        r = sh(['git', 'apply', '--directory=' + d, '-p1', os.path.join(out, 'patch.diff')], cwd='/')
        if r.returncode:
            # fall back to patch(1)
            r = sh(['patch', '-p1', '-d', d, '-i', os.path.join(out, 'patch.diff')])
        meta['patch_applies_to_current_repo'] = r.returncode == 0
        if r.returncode:
            print('PATCH DOES NOT APPLY to current /repo:', r.stdout[-300:], r.stderr[-300:])
        if demo:
            r0 = sh(['/venv/bin/python', demo], env=dict(os.environ, PYTHONPATH='/repo'), cwd=tempfile.gettempdir())
            r1 = sh(['/venv/bin/python', demo], env=dict(os.environ, PYTHONPATH=d), cwd=tempfile.gettempdir())
            meta['demo'] = {'file': os.path.basename(demo), 'exit_unchanged': r0.returncode, 'exit_changed': r1.returncode,
                            'output_changed': (r1.stdout + r1.stderr)[-600:]}
            print('demo: unchanged exit=%d, changed exit=%d' % (r0.returncode, r1.returncode))
        meta['checks'] = {}
        for c in checks:
            t0 = time.time()
            r = sh([os.path.join(HERE, 'run.sh'), 'check', c, '--tier', tier], env=dict(os.environ, ROCKIT_SRC=d))
            nv = r.stdout.count('VIOLATION property=')
            keys = sorted({l.split('->', 1)[1].strip()[:140] for l in r.stdout.splitlines() if l.strip().startswith('->')})
            meta['checks'][c] = {'tier': tier, 'exit': r.returncode, 'violations': nv, 'first_keys': keys[:4], 'wall_s': round(time.time() - t0, 1)}
            print('%s: exit=%d violations=%d %s' % (c, r.returncode, nv, 'CAUGHT' if r.returncode == 1 and nv else 'MISSED'), keys[:2])
            if r.returncode not in (0, 1):
                print(r.stdout[-500:])
    finally:
        shutil.rmtree(d, ignore_errors=True)
    mp = os.path.join(out, 'meta.json')
    old = json.load(open(mp)) if os.path.exists(mp) else {}
    prev = old.get('checks', {})
    old.update(meta)
    prev.update(meta['checks'])
    old['checks'] = prev
    json.dump(old, open(mp, 'w'), indent=1)
    # mutant runs rewrote evidence files of the checks: restore them from git
    subprocess.run(['git', '-C', HERE, 'checkout', '--', 'evidence'], capture_output=True)

main()
