#!/usr/bin/env python3
"""Run the pinned baseline test suite (guard off) and compare with BASELINE.json stable_pass."""
import json, subprocess, sys, tempfile, os, xml.etree.ElementTree as ET
base = json.load(open('/root/.vp/BASELINE.json'))
out = tempfile.mktemp(suffix='.xml')
env = {k: v for k, v in os.environ.items() if k != 'ROCKIT_VERIF'}
subprocess.run(['/venv/bin/python', '-m', 'pytest', '-q', '-p', 'no:cacheprovider', '--timeout=900', '--continue-on-collection-errors',
                '-n', '8', '--junitxml=' + out], cwd='/repo', env=env, capture_output=True)
passed = set()
for tc in ET.parse(out).getroot().iter('testcase'):
    if not any(ch.tag in ('failure', 'error', 'skipped') for ch in tc):
        passed.add(tc.get('classname') + '::' + tc.get('name'))
os.remove(out)
missing = [t for t in base['stable_pass'] if t not in passed]
print('passed', len(passed), 'stable_pass', len(base['stable_pass']), 'missing', missing)
sys.exit(1 if missing else 0)
