import json,glob,sys
P=sys.argv[1]
ev=json.load(open('/verif/evidence/%s.json'%P))
print(ev['coverage']['instances_by_status'], ev['coverage'].get('known_findings_hit'))
for i in ev['coverage']['inconclusive'][:6]: print('INC', i['id'], i['status'], i['why'][-500:])
seen=set()
for f in sorted(glob.glob('/verif/replay/%s/*.json'%P)):
    v=json.load(open(f))
    k=(v['instance'], v['key'])
    if k in seen: continue
    seen.add(k)
    print(v['instance'], v['key'], v['label'], '::', str(v['detail'])[:500], v.get('cfg'), str(v.get('spec'))[:700]); print()
