#!/usr/bin/env python3
"""Regenerates MANIFEST.json from the table below (keeps it schema-valid at all times)."""
import json, os
HERE = os.path.dirname(os.path.abspath(__file__))
TV = 'translation_validation'
CLAIMED = {
 'C01': (TV, 'CasADi-SX-to-SMT translation validation of each transcription against a reference RK4/Euler/update recursion (z3, QF_UFNRA, uninterpreted right-hand sides)',
         'For every enumerated configuration the real gap-closing rows, SingleShooting state recursion and integrator-grid samples are proven equal (z3 unsat on the negation) to an independent reference recursion for ALL real values of the decision vector, parameters, t0/T and for ALL right-hand sides of the given shape (uninterpreted markers). Configurations (method, intg, N, M, grid, horizon kind, model shape) are enumerated within stated bounds.',
         'CasADi graph construction + Function.expand; z3; translator self-validated against CasADi numerics on each trace; reals for floats; constants identified up to 1e-10.', '3/C01'),
 'C02': (TV, 'CasADi-SX-to-SMT translation validation of the collocation rows against an exact-rational Lagrange-polynomial reference (z3, QF_UFNRA)',
         'For every enumerated (degree 1..5, radau/legendre, N, M, grid, horizon kind, ODE/DAE model) the dynamics rows of the real NLP are put in bijection (solver-confirmed equality for all real values, all right-hand sides of the shape) with defect / algebraic / continuity residuals of the Lagrange interpolant; collocation times proven equal to t_start+tau_j*h; no other row touches model variables.',
         'As C01; Lagrange tables are exact rationals of CasADi collocation_points doubles; irrational tables only with symbolic horizon.', '3/C02'),
 'C04': (TV, 'complete NLP row multiset vs reference placement semantics, each pairing confirmed by z3 (QF_UFNRA), leftovers restricted to time-grid variables',
         'For every enumerated constraint set/method/grid the COMPLETE multiset of NLP rows (bounds and sense included) is in bijection with: reference instances of every declared constraint (per grid point, include_first/last, offsets, final-node conventions) + dynamics rows + T>=0; equality of each pair holds for all real values and all constraint bodies of the shape (uninterpreted markers); rejection of unplaceable constraints; Jacobian row count.',
         'As C01; time-grid rows are only required not to touch model variables (their content is C06).', '3/C04'),
 'C05': (TV, 'opti.f proven equal (z3 unsat of the negation, QF_UFNRA) to the reference sum of Mayer/sum/left-Riemann/scheme-quadrature terms',
         'For every enumerated objective composition/method/grid: opti.f == reference sum for all real values of the decision vector/parameters/T/t0 and all integrands of the shape; value(ocp.objective) == opti.f.',
         'As C01; quadrature by the scheme applied to the augmented system (shooting) / collocation weights B_j (exact rationals).', '3/C05'),
 'C14': (TV, 'scaled NLP rows/objective proven equal (z3, QF_UFNRA) to the unscaled reference in physical quantities: constraints exactly /scale, dynamics rows up to a constant factor',
         'For every enumerated model with scale= on states, controls, algebraics, variables, derivatives, algebraic equations and constraints (distinct rational scales) and every method/grid: complete row bijection against the UNSCALED reference written in sampled physical quantities (user constraints and their bounds exactly divided by the declared scale; dynamics rows up to a nonzero constant, the factor is reported); objective equal; each sampled physical quantity / scale is a plain solver variable; starting point read back in physical units equals the guess (ground).',
         'As C01. Scales are concrete rationals, not symbolic.', '3/C14'),
 'C06': ('other', 'real grid kernels executed on z3 reals + NLP-level implications (grid rows => declared partition facts) decided by z3 over all values of the time variables',
         'Bounded symbolic checking. (a) the real GeometricGrid.normalized(N) is run on a solver real growth factor: start 0, end 1, strict monotonicity, constant ratio = g (local) / last = g*first (global, g**(1/(N-1)) stubbed by r with r^(N-1)=g), for ALL g>=1, N<=8. (b) for every enumerated (grid class/options, N, M, method, horizon kind): hypotheses = the time-grid rows of the real NLP, conclusions = tc[0]=t0, tc[N]=t0+T, tc[k]=t0+n_k*T, strict monotonicity for T>0, M equal sub-steps, sampled t/DT/DT_control agree, min<=dt<=max; each conclusion proven by unsat of hypotheses & not(conclusion); a sat answer is a time-variable assignment that is replayed.',
         'CasADi graph + Function.expand; z3; reals for floats; Density grids outside (numeric root finding).', '3/C06'),
 'C11': (TV, 'relational translation validation: free-time NLP with the horizon bound to c vs the real fixed-time NLP, row multisets and objective proven equal by z3',
         'For every enumerated model/method/grid and {T, t0, both} free: the real free-time transcription with the horizon variable(s) bound to rational c (at translation time, so all other variables stay universally quantified) has the same complete row multiset and objective as the real transcription of the OCP declared with the numbers; the only extra row is T>=0; value(T|t0) are plain decision variables; their starting values equal the guesses; starting points agree on shared variables (ground).',
         'Variables of the two transcriptions correspond by creation order; rational tables/partitions only (symbolic-T agreement with the reference is C01/C02/C04).', '3/C11'),
 'C09': (TV, 'parametric NLP vs reference with symbolic parameter entries (z3, all values at once) + relational inlined-constants comparison + tagged routing',
         'For every enumerated model with global/per-interval/control+/matrix/horizon parameters: (i) complete row bijection and objective equality against the reference in which every parameter entry is a symbol, so all parameter values are covered at once; named entries are distinct plain NLP parameters; (ii) tagged-value routing of set_value into opti.p (column k <-> interval k, extra column <-> final node, matrix layout) read back through the named quantities (ground); (iii) two real transcriptions - parameters bound to their values vs values written as constants - have equal rows/objective for all x and equal starting points; (iv) set_value call orders relative to transcription: final opti.p and NLP equal those of a fresh OCP.',
         'Values travel through CasADi\'s numeric store (assumed value-independent; checked with tagged values). Variables correspond by creation order.', '3/C09'),
 'C13': (TV, 'relational translation validation per enumerated history: evolved OCP vs fresh OCP with the final specification, rows/objective proven equal by z3; x0, p, iteration limit compared (ground)',
         'Histories over 13 public operations (queries, solve_limited, set_value, set_initial, subject_to, clear_constraints, add_objective, method, solver, set_T, set_t0) after an initial transcription are enumerated (length<=2 exhaustively, length 3 sampled); for each the evolved OCP and a fresh OCP declared with the final specification are transcribed by the real code and their complete row multisets/objectives are proven equal for all decision vectors; starting point, parameter vector, declared lists and the solver iteration limit in effect are compared; an edit may be honoured or raise, never be silently ignored.',
         'Histories are enumerated, not symbolic. Variable correspondence by creation order.', '3/C13'),
 'C18': (TV, 'relational translation validation: Ocp.load(save(ocp)) vs the original, both transcribed by the real code, rows/objective proven equal by z3; settings and accessors compared (ground)',
         'For every enumerated feature-rich OCP x method x save moment: complete row multiset and objective of the loaded OCP equal those of the original for all decision vectors; starting point, parameter values, method class/settings, solver name/options, accessor lists (order, shapes) equal; quantities sampled through the loaded OCP\'s own accessors are the same; the original is undamaged by save (transcribes to the same NLP).',
         'Variable correspondence by creation order; single-stage OCPs (multi-stage in C12).', '3/C18'),
 'C12': (TV, 'multi-stage NLP rows vs union of per-stage reference rows + reference coupling rows (z3); clone-based vs directly declared OCP compared relationally',
         'For every enumerated stage list (mixed methods/grids/horizons, per-stage parameters/variables, time inside dynamics and integrands), coupling pattern and parent variable/objective: complete row multiset of the multi-stage NLP in bijection with the union of each stage\'s reference rows (from that stage\'s own named quantities) and the reference coupling rows; objective = sum; named variables of different stages disjoint; OCP built from template clones (with overridden t0/T) equals the directly declared OCP (two real transcriptions, all x) incl. starting point; template content unchanged.',
         'As C01/C04. Stage nesting depth 1.', '3/C12'),
 'C07': ('other', 'identities between real sample()/value() expressions decided by z3 over all decision vectors; DM2numpy layout as a ground comparison',
         'Bounded symbolic checking of the read-back map. For every enumerated model/method/grid and test expression (scalar, column, row, matrix over x,u,z,t,T,t0,DT,DT_control,p,v of all grid kinds, quadrature state) and G in {control, control-, integrator, integrator+refine, integrator_roots}: sample(e,G)[i] == e applied to the sampled leaves at point i (homomorphism, all values, markers uninterpreted); sampled primitives equal the reference quantity of the enclosing interval/node incl. the scheme quadrature for quadrature states; value(e) == e(values); numeric array layout [time, row, col] (ground).',
         'As C01; layout checked on a tagged decision vector instead of solver output.', '3/C07'),
 'C08': ('other', 'interpolation identities on the real refined-sampling and sampler code decided by z3 (rational-function cross-multiplication; low() stubbed per explored step)',
         'Bounded symbolic checking. For every enumerated method/scheme/grid (symbolic horizon) with refine = degree+2: sub-sampling identities between refined, integrator and control grids (times and values); refined times equally spaced; (d+1)-th finite difference of the in-step samples vanishes (one polynomial of degree <= d per step); extrapolated end value == the scheme\'s propagated end state (also the final entry); exact differentiation stencil at the step start == ODE right-hand side (explicit schemes); collocation polynomial through the helper states (rational tables); sampler on explored steps == that polynomial (values at d+1 times + vanishing (d+1)-th time derivative) - all for all real decision vectors/parameters with uninterpreted right-hand sides.',
         'rockit.stage.low stubbed by the explored step index (path condition = t in that step). Numeric horizons and irrational collocation tables are outside the exact identities (rounded power-basis constants).', '3/C08'),
 'C16': ('other', 'ocp.der(e) lowered to SX and proven equal by z3 to an independent AST total derivative, right-hand sides uninterpreted',
         'Bounded symbolic checking. For every enumerated/generated ODE (uninterpreted markers in f) and polynomial expression e of states, time, parameters and global variables (scalar and vector valued): der(e) == d_t e + grad_x e . f for all values of (x,u,p,v,t) and all right-hand sides of the shape; order-k controls: der^j(u) is chain member j, der^(k+1)(u) raises; der of a control-dependent expression raises.',
         'Reference differentiates the AST of e (so e is polynomial/rational); markers stand for f only.', '3/C16'),
 'C10': ('other', 'ground read-back of the starting vector through the named quantities + z3 identity of the evaluated time-expression guesses for all guessed t0/T + relational NLP invariance',
         'For every enumerated guess set (scalar, n x N, n x (N+1), expression of time; states, controls, variables of every kind, algebraics, free T/t0), method, grid and call order: (a) the starting point read back in physical units equals the guess at every node / interval / collocation point, zero elsewhere, last call wins (ground, distinct values); (b) each expression rockit evaluates at the initial point (logged through a shim on OptiAdvanced.value) is proven by z3 equal to the guess expression at the named node / interval-start / collocation times for ALL guessed t0, T; (c) two real transcriptions with and without guesses have identical rows/objective for all x; (d) guesses given after the first transcription produce the same starting point as before it.',
         'Guess values live in CasADi\'s numeric store: routing is ground. OptiAdvanced.value wrapped by a logging shim.', '3/C10'),
 'C15': ('other', 'universally quantified implication over the real NLP rows decided by z3 (QF_LRA/QF_NRA): all rows hold => refined step polynomial satisfies the bound; counterexamples replayed',
         "Bounded symbolic checking. For linear chain models whose step polynomial is exact (x'=u, double integrator) with degree-1 grid='inf' constraints, MS/SS (rk) and DC degree 4, uniform / geometric / user / free grids, numeric and free T: z3 decides (every NLP row) & (positive steps) & (some refined sample point violates the bound): unsat proves sufficiency for every decision vector; a sat model is replayed on the real NLP functions and the real refined sample and reported only if feasible-and-violating. Non-polynomial bodies must raise.",
         'Refined sample = scheme polynomial (C08). Degree-2 bodies, inf_der/inf_inert and tightness outside (nlsat does not finish).', '3/C15'),
}
NA = {p: 'check not built yet in this round (see DESIGN.md section 3 for the plan)' for p in
      ['C02','C03','C04','C05','C06','C07','C08','C09','C10','C11','C12','C13','C14','C15','C16','C17','C18','C19']}
NA['C20'] = ('quantifies over malformed program structures and fault positions with outcome "raises or not" per concrete program: no numeric/symbolic '
             'input for a solver to range over; deciding it would be enumeration of concrete runs, which this technique family excludes (DESIGN.md section 4)')
for p in CLAIMED:
    NA.pop(p, None)

m = {
 'version': 1,
 'setup_cmd': './setup.sh',
 'hooks': {'guard': 'ROCKIT_VERIF', 'enable': 'no source hooks: all instrumentation is attribute patching from /verif at run time (run.sh exports ROCKIT_VERIF=1 for uniformity)',
           'baseline_off_cmd': 'cd /repo && /venv/bin/python -m pytest -ra -q -p no:cacheprovider --timeout=900 --continue-on-collection-errors',
           'source_commits': [], 'add_only': True},
 'engines': [{'name': 'rv', 'path': 'rv/', 'serves_properties': sorted(CLAIMED),
              'kind_free_text': 'runs real rockit on CasADi symbols, lowers opti.f/g/lbg/ubg and read-back expressions to the SX instruction stream, translates it to z3 real-arithmetic terms (uninterpreted functions for user model markers) and decides equivalence with an independent reference semantics; counterexamples replayed numerically on the real NLP functions'}],
 'checks': [],
 'not_applicable': [{'property_id': p, 'reason': r} for p, r in sorted(NA.items())],
 'notes': 'exit codes: 0 held on everything explored; 1 with VIOLATION lines; 3 harness could not decide (solver unknown/timeout, translator self-check failure).',
}
for p, (lvl, tech, text, note, ref) in sorted(CLAIMED.items()):
    m['checks'].append({
        'property_id': p, 'quick_cmd': './run.sh check %s --tier quick' % p, 'thorough_cmd': './run.sh check %s --tier thorough' % p,
        'evidence_file': 'evidence/%s.json' % p, 'replay_cmd_template': './run.sh replay {path}', 'engine': 'rv',
        'level_claimed': {'category': lvl, 'text': text, 'design_ref': 'DESIGN.md section ' + ref},
        'level_note': note, 'technique': tech})
json.dump(m, open(os.path.join(HERE, 'MANIFEST.json'), 'w'), indent=1)
print('claimed', sorted(CLAIMED), 'n/a', sorted(NA))
