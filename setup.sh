#!/bin/sh
# Build the overlay venv (git-ignored) offline from the wheelhouse.  Idempotent.
set -e
HERE="$(cd "$(dirname "$0")" && pwd)"
V="$HERE/.venv"
if [ -x "$V/bin/python" ] && "$V/bin/python" -c "import z3, casadi, networkx, jsonschema" >/dev/null 2>&1; then
  exit 0
fi
(
  flock 9
  if [ -x "$V/bin/python" ] && "$V/bin/python" -c "import z3, casadi, networkx, jsonschema" >/dev/null 2>&1; then
    exit 0
  fi
  rm -rf "$V"
  /venv/bin/python -m venv "$V"
  SP="$("$V/bin/python" -c 'import sysconfig; print(sysconfig.get_paths()["purelib"])')"
  printf "import site; site.addsitedir('/venv/lib/python3.12/site-packages')\n" > "$SP/_overlay.pth"
  PIP_NO_INDEX=1 "$V/bin/python" -m pip install --quiet --no-index --find-links /opt/veriftools/wheels \
      z3-solver networkx sympy jsonschema crosshair-tool >/dev/null
) 9>"$HERE/.venv.lock"
